#![no_main]
// One libFuzzer target for every fuzzable sub-check: VERIF_FUZZ_PROP / VERIF_FUZZ_SUB select it.
// All logic (decoding, oracle, replay file) lives in the harness crate, see harness/src/fuzz.rs.
use libfuzzer_sys::fuzz_target;

fuzz_target!(|data: &[u8]| {
    srv::fuzz::one_input(data);
});
