#!/bin/bash
# Builds the harness offline from files on disk only.
set -eu
export CARGO_NET_OFFLINE=true
VERIF_DIR="$(cd "$(dirname "$0")" && pwd)"
mkdir -p "$VERIF_DIR/target" "$VERIF_DIR/evidence" "$VERIF_DIR/replays"
cd "$VERIF_DIR/harness"
CARGO_TARGET_DIR="$VERIF_DIR/target" RUSTFLAGS="--cfg getong_stateright_verif" cargo build --release
