//! GraphModel: a finite transition graph given as data, interpreted as a `stateright::Model`,
//! with reference oracles (reachability, distances, eventually-violations, forest test) that
//! are written from the property statements and share no code with stateright.

use crate::engine::{idx, Fail};
use proptest::prelude::*;
use serde::{Deserialize, Serialize};
use stateright::{Expectation, Model, Path, Property};
use std::collections::{BTreeSet, HashMap, HashSet, VecDeque};
use std::sync::Arc;

pub const PROP_NAMES: [&str; 6] = ["p0", "p1", "p2", "p3", "p4", "p5"];

#[derive(Clone, Copy, Debug, Serialize, Deserialize, PartialEq, Eq, Hash)]
pub enum Exp {
    Always,
    Sometimes,
    Eventually,
}

#[derive(Clone, Debug, Serialize, Deserialize, PartialEq, Eq, Hash)]
pub struct PropDesc {
    pub exp: Exp,
    /// states (by id) on which the condition is true
    pub on: BTreeSet<u32>,
}

#[derive(Clone, Debug, Serialize, Deserialize, PartialEq, Eq, Hash)]
pub struct GraphDesc {
    pub n: u32,
    pub inits: Vec<u32>,
    /// per state: ordered actions; `None` = ignored action (`next_state` returns `None`)
    pub edges: Vec<Vec<Option<u32>>>,
    /// states outside the boundary
    pub oob: BTreeSet<u32>,
    pub props: Vec<PropDesc>,
    /// `next_state` panics when called on this state (C05 stop reason "panic in model code")
    #[serde(default)]
    pub panic_at: Option<u32>,
    #[serde(default)]
    pub shape: String,
    /// call the scheduler hook from inside model code (C05: user code runs inside the windows
    /// between the checker's own steps)
    #[serde(default)]
    pub yield_in_model: bool,
    /// `next_state` sleeps this many microseconds (keeps a worker busy so that requests queue up)
    #[serde(default)]
    pub slow_us: u32,
}

#[derive(Clone, Debug, Hash, PartialEq, Eq, PartialOrd, Ord)]
pub struct S(pub u32);

/// The model handed to stateright. Also holds the truth tables as dense vectors.
#[derive(Clone)]
pub struct GM {
    pub d: Arc<GraphDesc>,
    masks: Arc<Vec<Vec<bool>>>,
    inb: Arc<Vec<bool>>,
}

impl GM {
    pub fn new(d: &GraphDesc) -> GM {
        let n = d.n as usize;
        let masks = d
            .props
            .iter()
            .map(|p| {
                let mut m = vec![false; n];
                for s in &p.on {
                    if (*s as usize) < n {
                        m[*s as usize] = true;
                    }
                }
                m
            })
            .collect();
        let mut inb = vec![true; n];
        for s in &d.oob {
            if (*s as usize) < n {
                inb[*s as usize] = false;
            }
        }
        GM {
            d: Arc::new(d.clone()),
            masks: Arc::new(masks),
            inb: Arc::new(inb),
        }
    }
    pub fn mask(&self, k: usize, s: u32) -> bool {
        self.masks[k][s as usize]
    }
    pub fn in_boundary(&self, s: u32) -> bool {
        self.inb[s as usize]
    }
}

macro_rules! cond_fns {
    ($($name:ident = $k:expr),*) => {
        $(fn $name(m: &GM, s: &S) -> bool {
            // (a property condition is user code that runs between the checker's "has this
            // property a discovery yet?" test and its insertion of one)
            if m.d.yield_in_model {
                stateright::verif_hooks::yield_point("model.condition");
            }
            m.masks[$k][s.0 as usize]
        })*
    };
}
cond_fns!(cond0 = 0, cond1 = 1, cond2 = 2, cond3 = 3, cond4 = 4, cond5 = 5);
const CONDS: [fn(&GM, &S) -> bool; 6] = [cond0, cond1, cond2, cond3, cond4, cond5];

impl Model for GM {
    type State = S;
    type Action = u16;
    fn init_states(&self) -> Vec<S> {
        self.d.inits.iter().map(|i| S(*i)).collect()
    }
    fn actions(&self, s: &S, actions: &mut Vec<u16>) {
        for a in 0..self.d.edges[s.0 as usize].len() {
            actions.push(a as u16);
        }
    }
    fn next_state(&self, s: &S, a: u16) -> Option<S> {
        if self.d.yield_in_model {
            stateright::verif_hooks::yield_point("model.next_state");
        }
        if self.d.slow_us > 0 {
            std::thread::sleep(std::time::Duration::from_micros(self.d.slow_us as u64));
        }
        if self.d.panic_at == Some(s.0) {
            panic!("planted panic in model code at state {}", s.0);
        }
        self.d.edges[s.0 as usize][a as usize].map(S)
    }
    fn within_boundary(&self, s: &S) -> bool {
        if self.d.yield_in_model {
            stateright::verif_hooks::yield_point("model.within_boundary");
        }
        self.inb[s.0 as usize]
    }
    fn properties(&self) -> Vec<Property<Self>> {
        self.d
            .props
            .iter()
            .enumerate()
            .map(|(k, p)| Property {
                expectation: match p.exp {
                    Exp::Always => Expectation::Always,
                    Exp::Sometimes => Expectation::Sometimes,
                    Exp::Eventually => Expectation::Eventually,
                },
                name: PROP_NAMES[k],
                condition: CONDS[k],
            })
            .collect()
    }
}

// ------------------------------------------------------------------------------------------
// Reference computations
// ------------------------------------------------------------------------------------------

pub struct Reach {
    /// BFS distance (number of transitions) from the nearest in-boundary initial state through
    /// in-boundary states; `None` = not reachable
    pub dist: Vec<Option<u32>>,
    pub set: BTreeSet<u32>,
}

impl GraphDesc {
    pub fn inb(&self, s: u32) -> bool {
        !self.oob.contains(&s)
    }
    /// in-boundary successors in action order (with multiplicity)
    pub fn succ_inb(&self, s: u32) -> Vec<u32> {
        self.edges[s as usize]
            .iter()
            .flatten()
            .copied()
            .filter(|t| self.inb(*t))
            .collect()
    }
    pub fn reach(&self) -> Reach {
        let mut dist = vec![None; self.n as usize];
        let mut q = VecDeque::new();
        for i in &self.inits {
            if self.inb(*i) && dist[*i as usize].is_none() {
                dist[*i as usize] = Some(0);
                q.push_back(*i);
            }
        }
        while let Some(s) = q.pop_front() {
            let d = dist[s as usize].unwrap();
            for t in self.succ_inb(s) {
                if dist[t as usize].is_none() {
                    dist[t as usize] = Some(d + 1);
                    q.push_back(t);
                }
            }
        }
        let set = (0..self.n).filter(|s| dist[*s as usize].is_some()).collect();
        Reach { dist, set }
    }
    /// Does some maximal in-boundary path from an in-boundary initial state avoid `on` forever?
    /// (dead end = no in-boundary successor at all, or a lasso inside the avoiding subgraph)
    pub fn eventually_violated(&self, on: &BTreeSet<u32>) -> bool {
        let avoid = |s: u32| !on.contains(&s);
        // states reachable through avoiding in-boundary states only
        let mut seen = HashSet::new();
        let mut stack = vec![];
        for i in &self.inits {
            if self.inb(*i) && avoid(*i) && seen.insert(*i) {
                stack.push(*i);
            }
        }
        let mut order = vec![];
        while let Some(s) = stack.pop() {
            order.push(s);
            for t in self.succ_inb(s) {
                if avoid(t) && seen.insert(t) {
                    stack.push(t);
                }
            }
        }
        // dead end in the full graph
        if order.iter().any(|s| self.succ_inb(*s).is_empty()) {
            return true;
        }
        // cycle inside the avoiding subgraph: repeatedly strip states without avoiding successors
        let mut alive: HashSet<u32> = seen.clone();
        loop {
            let dead: Vec<u32> = alive
                .iter()
                .copied()
                .filter(|s| !self.succ_inb(*s).iter().any(|t| alive.contains(t)))
                .collect();
            if dead.is_empty() {
                break;
            }
            for d in dead {
                alive.remove(&d);
            }
        }
        !alive.is_empty()
    }
    /// Is every reachable in-boundary state reachable by exactly one path?
    pub fn is_forest(&self) -> bool {
        let r = self.reach();
        let mut indeg: HashMap<u32, u32> = HashMap::new();
        let mut init_seen = HashSet::new();
        for i in &self.inits {
            if self.inb(*i) {
                if !init_seen.insert(*i) {
                    return false;
                }
                *indeg.entry(*i).or_insert(0) += 1;
            }
        }
        for s in &r.set {
            for t in self.succ_inb(*s) {
                *indeg.entry(t).or_insert(0) += 1;
            }
        }
        r.set.iter().all(|s| indeg.get(s).copied().unwrap_or(0) == 1)
    }
    pub fn has_reachable_cycle(&self) -> bool {
        // Kahn on the reachable in-boundary subgraph
        let r = self.reach();
        let mut indeg: HashMap<u32, u32> = r.set.iter().map(|s| (*s, 0)).collect();
        for s in &r.set {
            for t in self.succ_inb(*s) {
                *indeg.get_mut(&t).unwrap() += 1;
            }
        }
        let mut q: Vec<u32> = indeg.iter().filter(|(_, d)| **d == 0).map(|(s, _)| *s).collect();
        let mut removed = 0;
        while let Some(s) = q.pop() {
            removed += 1;
            for t in self.succ_inb(s) {
                let d = indeg.get_mut(&t).unwrap();
                *d -= 1;
                if *d == 0 {
                    q.push(t);
                }
            }
        }
        removed != r.set.len()
    }
    /// Feature labels used for coverage classes.
    pub fn features(&self) -> Vec<&'static str> {
        let r = self.reach();
        let mut f = vec![];
        let mut indeg: HashMap<u32, u32> = HashMap::new();
        let mut ignored = false;
        let mut oob_succ = false;
        let mut self_loop = false;
        let mut dup_edge = false;
        for s in &r.set {
            let mut seen_t = HashSet::new();
            for e in &self.edges[*s as usize] {
                match e {
                    None => ignored = true,
                    Some(t) => {
                        if !self.inb(*t) {
                            oob_succ = true;
                        } else {
                            if t == s {
                                self_loop = true;
                            }
                            if !seen_t.insert(*t) {
                                dup_edge = true;
                            }
                            *indeg.entry(*t).or_insert(0) += 1;
                        }
                    }
                }
            }
        }
        if indeg.values().any(|d| *d > 1) {
            f.push("join");
        }
        if self.has_reachable_cycle() {
            f.push("cycle");
        }
        if self_loop {
            f.push("self_loop");
        }
        if ignored {
            f.push("ignored_action");
        }
        if oob_succ {
            f.push("oob_successor");
        }
        if dup_edge {
            f.push("duplicate_edge");
        }
        if self.inits.iter().filter(|i| self.inb(**i)).count() >= 2 {
            f.push("multi_init");
        }
        if self.inits.iter().any(|i| !self.inb(*i)) {
            f.push("oob_init");
        }
        if self.is_forest() {
            f.push("forest");
        }
        f
    }
}

// ------------------------------------------------------------------------------------------
// Path validator (C03, C10, C19), independent of Path::from_fingerprints
// ------------------------------------------------------------------------------------------

/// Validates that `path` is a real in-boundary execution of `model`; returns its states.
pub fn validate_path<M>(model: &M, path: &Path<M::State, M::Action>) -> Result<Vec<M::State>, Fail>
where
    M: Model,
    M::State: Clone + PartialEq + std::fmt::Debug,
    M::Action: Clone + PartialEq + std::fmt::Debug,
{
    let v: Vec<(M::State, Option<M::Action>)> = path.clone().into_vec();
    validate_steps(model, &v)?;
    Ok(v.into_iter().map(|(s, _)| s).collect())
}

pub fn validate_steps<M>(model: &M, v: &[(M::State, Option<M::Action>)]) -> Result<(), Fail>
where
    M: Model,
    M::State: Clone + PartialEq + std::fmt::Debug,
    M::Action: Clone + PartialEq + std::fmt::Debug,
{
    if v.is_empty() {
        return Err(Fail::new("path/empty", "empty path"));
    }
    let inits = model.init_states();
    if !inits.iter().any(|i| *i == v[0].0) {
        return Err(Fail::new(
            "path/first-state-not-initial",
            format!("first state {:?} is not an initial state", v[0].0),
        ));
    }
    for (i, (s, a)) in v.iter().enumerate() {
        if !model.within_boundary(s) {
            return Err(Fail::new(
                "path/state-outside-boundary",
                format!("state #{} {:?} is outside the boundary", i, s),
            ));
        }
        if i + 1 < v.len() {
            let Some(a) = a else {
                return Err(Fail::new("path/missing-action", format!("no action at step {}", i)));
            };
            let mut acts = vec![];
            model.actions(s, &mut acts);
            if !acts.iter().any(|x| x == a) {
                return Err(Fail::new(
                    "path/action-not-enabled",
                    format!("step {}: action {:?} not enabled in {:?}", i, a, s),
                ));
            }
            match model.next_state(s, a.clone()) {
                Some(n) if n == v[i + 1].0 => {}
                other => {
                    return Err(Fail::new(
                        "path/step-not-a-transition",
                        format!(
                            "step {}: next_state({:?},{:?}) = {:?}, path says {:?}",
                            i,
                            s,
                            a,
                            other,
                            v[i + 1].0
                        ),
                    ))
                }
            }
        } else if a.is_some() {
            return Err(Fail::new("path/trailing-action", "last element carries an action"));
        }
    }
    Ok(())
}

// ------------------------------------------------------------------------------------------
// Generators
// ------------------------------------------------------------------------------------------

#[derive(Clone, Debug)]
pub struct StateGene {
    /// (raw target, kind): kind 0..=200 normal edge, 201..=225 ignored action, 226.. duplicate of previous target
    pub edges: Vec<(u16, u8)>,
    pub oob: u8,
    pub masks: u8,
}

#[derive(Clone, Copy, Debug, PartialEq, Eq)]
pub enum Shape {
    Uniform,
    /// forward edges only, window w (1 = chain)
    Dag(u8),
    Forest,
    /// uniform plus guaranteed back edges
    Cyclic,
    /// chain with short side branches
    Comb,
}

#[derive(Clone, Debug)]
pub struct GraphParams {
    pub max_n: usize,
    pub max_deg: usize,
    /// probability (out of 256) that a state is outside the boundary
    pub oob_rate: u8,
    pub max_props: usize,
    pub min_props: usize,
    /// allowed expectations
    pub exps: Vec<Exp>,
    pub shapes: Vec<(u32, Shape)>,
    /// prepend an always-property that holds everywhere (so that no early exit can occur)
    pub force_true_always: bool,
    pub dup_inits: bool,
    pub max_inits: usize,
}

impl GraphParams {
    pub fn small() -> GraphParams {
        GraphParams {
            max_n: 24,
            max_deg: 3,
            oob_rate: 30,
            max_props: 4,
            min_props: 1,
            exps: vec![Exp::Always, Exp::Sometimes, Exp::Eventually],
            shapes: vec![
                (3, Shape::Uniform),
                (2, Shape::Dag(3)),
                (2, Shape::Forest),
                (2, Shape::Cyclic),
                (1, Shape::Dag(1)),
                (1, Shape::Comb),
            ],
            force_true_always: false,
            dup_inits: false,
            max_inits: 3,
        }
    }
}

fn gene_strategy(max_deg: usize) -> impl Strategy<Value = StateGene> {
    (
        proptest::collection::vec((any::<u16>(), any::<u8>()), 0..=max_deg),
        any::<u8>(),
        any::<u8>(),
    )
        .prop_map(|(edges, oob, masks)| StateGene { edges, oob, masks })
}

fn shape_strategy(shapes: &[(u32, Shape)]) -> BoxedStrategy<Shape> {
    let total: u32 = shapes.iter().map(|(w, _)| *w).sum();
    let shapes = shapes.to_vec();
    (0..total)
        .prop_map(move |mut x| {
            for (w, s) in &shapes {
                if x < *w {
                    return *s;
                }
                x -= *w;
            }
            shapes[0].1
        })
        .boxed()
}

/// Builds the description from genes. Any gene vector is valid, so shrinking is unconstrained.
pub fn build_graph(
    shape: Shape,
    genes: &[StateGene],
    init_raw: &[u16],
    prop_raw: &[(u8, u8)],
    p: &GraphParams,
) -> GraphDesc {
    let n = genes.len().max(1);
    let mut edges: Vec<Vec<Option<u32>>> = vec![vec![]; n];
    let oob: BTreeSet<u32> = genes
        .iter()
        .enumerate()
        .filter(|(_, g)| g.oob < p.oob_rate)
        .map(|(i, _)| i as u32)
        .collect();
    // initial states
    let mut inits: Vec<u32> = match shape {
        Shape::Forest => {
            let roots = init_raw.len().clamp(1, n.min(p.max_inits.max(1)));
            (0..roots as u32).collect()
        }
        _ => {
            let mut v: Vec<u32> = init_raw.iter().map(|r| idx(*r, n) as u32).collect();
            if v.is_empty() {
                v.push(0);
            }
            v
        }
    };
    if !p.dup_inits {
        let mut seen = HashSet::new();
        inits.retain(|i| seen.insert(*i));
    }
    let mut oob = oob;
    // keep at least the first initial state inside the boundary (an empty state space says nothing)
    oob.remove(&inits[0]);
    let oob = oob;
    let target = |i: usize, raw: u16| -> Option<u32> {
        match shape {
            Shape::Uniform | Shape::Cyclic => Some(idx(raw, n) as u32),
            Shape::Dag(w) => {
                let rem = n - i - 1;
                if rem == 0 {
                    None
                } else {
                    Some((i + 1 + idx(raw, rem.min(w as usize))) as u32)
                }
            }
            Shape::Comb | Shape::Forest => None, // handled below
        }
    };
    match shape {
        Shape::Forest => {
            // roots = the initial states (computed below from init_raw over the first states);
            // every other state i gets exactly one parent among 0..i (random recursive tree).
            // Extra edges go only to out-of-boundary states, which never count as joins.
            let roots = init_raw.len().clamp(1, n.min(p.max_inits.max(1)));
            for i in roots..n {
                let raw = genes[i].edges.first().map(|e| e.0).unwrap_or(0);
                let parent = idx(raw, i);
                edges[parent].push(Some(i as u32));
            }
            let oobs: Vec<u32> = oob.iter().copied().collect();
            for (i, g) in genes.iter().enumerate() {
                for (raw, kind) in g.edges.iter().skip(1) {
                    if *kind > 200 {
                        edges[i].push(None);
                    } else if !oobs.is_empty() {
                        let t = oobs[idx(*raw, oobs.len())];
                        // position chosen by kind so that oob edges interleave with tree edges
                        let pos = idx((*kind as u16) << 8, edges[i].len() + 1);
                        edges[i].insert(pos, Some(t));
                    }
                }
            }
        }
        Shape::Comb => {
            // spine 0..k, side branches hang off the spine
            let spine = (n + 1) / 2;
            for i in 0..spine.saturating_sub(1) {
                edges[i].push(Some((i + 1) as u32));
            }
            for j in spine..n {
                let raw = genes[j].edges.first().map(|e| e.0).unwrap_or(0);
                let at = idx(raw, spine);
                edges[at].push(Some(j as u32));
            }
        }
        _ => {
            for (i, g) in genes.iter().enumerate() {
                let mut prev: Option<u32> = None;
                for (raw, kind) in &g.edges {
                    if *kind > 225 {
                        if let Some(t) = prev {
                            edges[i].push(Some(t));
                            continue;
                        }
                    }
                    if *kind > 200 {
                        edges[i].push(None);
                        continue;
                    }
                    if let Some(t) = target(i, *raw) {
                        edges[i].push(Some(t));
                        prev = Some(t);
                    }
                }
            }
            if shape == Shape::Cyclic && n >= 2 {
                // guaranteed back edge from the last state that has any edge list
                let from = n - 1;
                let raw = genes[from].masks as u16 * 257;
                edges[from].push(Some(idx(raw, n) as u32));
                edges[0].push(Some((n - 1).min(1 + idx(raw, n - 1)) as u32));
            }
        }
    }
    // properties
    let mut props = vec![];
    if p.force_true_always {
        props.push(PropDesc {
            exp: Exp::Always,
            on: (0..n as u32).collect(),
        });
    }
    let room = 6 - props.len();
    let want = prop_raw.len().clamp(p.min_props, p.max_props).min(room);
    for k in 0..want {
        let (eraw, density) = prop_raw.get(k).copied().unwrap_or((0, 128));
        let exp = p.exps[idx((eraw as u16) << 8, p.exps.len())];
        // mask bit k of each gene, thinned or thickened by density so that both rare and
        // common conditions occur
        let on: BTreeSet<u32> = genes
            .iter()
            .enumerate()
            .filter(|(i, g)| {
                let bit = (g.masks >> (k % 8)) & 1 == 1;
                let h = (g.masks as u32 * 31 + *i as u32 * 17 + k as u32 * 101) % 256;
                match density % 4 {
                    0 => bit,
                    1 => bit && h < 96,       // rare
                    2 => bit || h < 160,      // common
                    _ => (h as u8) < density, // independent of bit
                }
            })
            .map(|(i, _)| i as u32)
            .collect();
        props.push(PropDesc { exp, on });
    }
    GraphDesc {
        n: n as u32,
        inits,
        edges,
        oob,
        props,
        panic_at: None,
        shape: format!("{:?}", shape),
        yield_in_model: false,
        slow_us: 0,
    }
}

pub fn graph_strategy(p: GraphParams) -> BoxedStrategy<GraphDesc> {
    let p2 = p.clone();
    (
        shape_strategy(&p.shapes),
        proptest::collection::vec(gene_strategy(p.max_deg), 1..=p.max_n),
        proptest::collection::vec(any::<u16>(), 1..=p.max_inits.max(1)),
        proptest::collection::vec((any::<u8>(), any::<u8>()), p.min_props..=p.max_props.max(p.min_props)),
    )
        .prop_map(move |(shape, genes, inits, props)| build_graph(shape, &genes, &inits, &props, &p2))
        .boxed()
}

/// Large graph for work-sharing runs: built directly (not shrinkable in a useful way, only its
/// seed is generated).
pub fn big_graph(seed: u64, n: u32, deg: u32, props: Vec<PropDesc>) -> GraphDesc {
    let mut x = seed | 1;
    let mut next = || {
        x ^= x << 13;
        x ^= x >> 7;
        x ^= x << 17;
        x
    };
    let mut edges = vec![vec![]; n as usize];
    // spanning structure so that everything is reachable from 0, plus random extra edges
    for i in 1..n {
        let parent = (next() % i as u64) as usize;
        edges[parent].push(Some(i));
    }
    for i in 0..n as usize {
        let extra = next() % (deg as u64 + 1);
        for _ in 0..extra {
            edges[i].push(Some((next() % n as u64) as u32));
        }
    }
    GraphDesc {
        n,
        inits: vec![0],
        edges,
        oob: BTreeSet::new(),
        props,
        panic_at: None,
        shape: "Big".to_string(),
        yield_in_model: false,
        slow_us: 0,
    }
}
