//! A `Hasher` that records the exact sequence of `write_*` calls. Two values that feed the same
//! call sequence collide under *every* hasher, so "different sequence" is the strongest
//! hasher-independent notion of "hash differently".

use std::hash::{Hash, Hasher};

#[derive(Default, Clone, PartialEq, Eq, Debug, Hash)]
pub struct Rec(pub Vec<u8>);

impl Hasher for Rec {
    fn finish(&self) -> u64 {
        // FNV-1a over the recorded stream (only used when a nested hasher is finished)
        let mut h: u64 = 0xcbf29ce484222325;
        for b in &self.0 {
            h ^= *b as u64;
            h = h.wrapping_mul(0x100000001b3);
        }
        h
    }
    fn write(&mut self, bytes: &[u8]) {
        self.0.push(b'B');
        self.0.extend_from_slice(&(bytes.len() as u32).to_le_bytes());
        self.0.extend_from_slice(bytes);
    }
    fn write_u8(&mut self, i: u8) {
        self.0.push(b'1');
        self.0.push(i);
    }
    fn write_u16(&mut self, i: u16) {
        self.0.push(b'2');
        self.0.extend_from_slice(&i.to_le_bytes());
    }
    fn write_u32(&mut self, i: u32) {
        self.0.push(b'4');
        self.0.extend_from_slice(&i.to_le_bytes());
    }
    fn write_u64(&mut self, i: u64) {
        self.0.push(b'8');
        self.0.extend_from_slice(&i.to_le_bytes());
    }
    fn write_usize(&mut self, i: usize) {
        self.0.push(b'U');
        self.0.extend_from_slice(&(i as u64).to_le_bytes());
    }
    fn write_i8(&mut self, i: i8) {
        self.write_u8(i as u8)
    }
    fn write_i16(&mut self, i: i16) {
        self.write_u16(i as u16)
    }
    fn write_i32(&mut self, i: i32) {
        self.write_u32(i as u32)
    }
    fn write_i64(&mut self, i: i64) {
        self.write_u64(i as u64)
    }
    fn write_isize(&mut self, i: isize) {
        self.write_usize(i as usize)
    }
}

pub fn stream<T: Hash>(v: &T) -> Vec<u8> {
    let mut r = Rec::default();
    v.hash(&mut r);
    r.0
}

/// Records only the bytes, without call boundaries: `std::hash::Hasher` does not promise that
/// `write(&[1, 2]); write(&[3])` differs from `write(&[1]); write(&[2, 3])` (SipHash, the default
/// hasher, does not distinguish them), so two values are only safely told apart if the
/// *concatenated* byte streams differ - which is how the property is worded ("feed a different
/// byte stream to the hasher").
#[derive(Default, Clone, PartialEq, Eq, Debug)]
pub struct Raw(pub Vec<u8>);
impl Hasher for Raw {
    fn finish(&self) -> u64 {
        let mut h: u64 = 0xcbf29ce484222325;
        for b in &self.0 {
            h ^= *b as u64;
            h = h.wrapping_mul(0x100000001b3);
        }
        h
    }
    fn write(&mut self, bytes: &[u8]) {
        self.0.extend_from_slice(bytes);
    }
    fn write_usize(&mut self, i: usize) {
        self.0.extend_from_slice(&(i as u64).to_le_bytes());
    }
    fn write_isize(&mut self, i: isize) {
        self.0.extend_from_slice(&(i as i64).to_le_bytes());
    }
}
pub fn raw_stream<T: Hash>(v: &T) -> Vec<u8> {
    let mut r = Raw::default();
    v.hash(&mut r);
    r.0
}
