//! Runs a real stateright checker on a model and collects everything observable.

use crate::engine::catch_quiet;
use serde::{Deserialize, Serialize};
use stateright::{Checker, CheckerBuilder, HasDiscoveries, Model, Path, UniformChooser};
use std::collections::{BTreeSet, HashMap};
use std::hash::Hash;
use std::sync::{Arc, Mutex};
use std::time::{Duration, Instant};

#[derive(Clone, Copy, Debug, Serialize, Deserialize, PartialEq, Eq, Hash)]
pub enum Strat {
    Bfs,
    Dfs,
    OnDemand,
    /// simulation with the uniform chooser and this seed
    Sim(u64),
}
impl Strat {
    pub fn label(&self) -> &'static str {
        match self {
            Strat::Bfs => "bfs",
            Strat::Dfs => "dfs",
            Strat::OnDemand => "on_demand",
            Strat::Sim(_) => "simulation",
        }
    }
    pub fn exhaustive(&self) -> bool {
        !matches!(self, Strat::Sim(_))
    }
}

#[derive(Clone, Debug, Serialize, Deserialize, PartialEq, Eq, Hash)]
pub enum Finish {
    All,
    Any,
    AnyFailures,
    AllFailures,
    AllOf(Vec<String>),
    AnyOf(Vec<String>),
}
impl Finish {
    pub fn to_real(&self, names: &[&'static str]) -> HasDiscoveries {
        let pick = |v: &Vec<String>| -> BTreeSet<&'static str> {
            v.iter()
                .filter_map(|s| names.iter().find(|n| **n == s.as_str()).copied())
                .collect()
        };
        match self {
            Finish::All => HasDiscoveries::All,
            Finish::Any => HasDiscoveries::Any,
            Finish::AnyFailures => HasDiscoveries::AnyFailures,
            Finish::AllFailures => HasDiscoveries::AllFailures,
            Finish::AllOf(v) => HasDiscoveries::AllOf(pick(v)),
            Finish::AnyOf(v) => HasDiscoveries::AnyOf(pick(v)),
        }
    }
}

#[derive(Clone, Debug, Serialize, Deserialize, PartialEq, Eq, Hash)]
pub struct RunCfg {
    pub strat: Strat,
    pub threads: usize,
    #[serde(default)]
    pub finish: Option<Finish>,
    #[serde(default)]
    pub target_state_count: Option<usize>,
    #[serde(default)]
    pub target_max_depth: Option<usize>,
    #[serde(default)]
    pub timeout_ms: Option<u64>,
    #[serde(default)]
    pub symmetry: bool,
    /// hook H3: states a worker evaluates before it offers to share work (default 1500)
    #[serde(default)]
    pub block_size: Option<usize>,
}
impl RunCfg {
    pub fn plain(strat: Strat, threads: usize) -> RunCfg {
        RunCfg {
            strat,
            threads,
            finish: None,
            target_state_count: None,
            target_max_depth: None,
            timeout_ms: None,
            symmetry: false,
            block_size: None,
        }
    }
    pub fn with_block(mut self, b: Option<usize>) -> RunCfg {
        self.block_size = b;
        self
    }
}

/// Block sizes: mostly the default, otherwise tiny so that block boundaries and work sharing
/// occur on small graphs.
pub fn block_strategy() -> proptest::strategy::BoxedStrategy<Option<usize>> {
    use proptest::prelude::*;
    prop_oneof![3 => Just(None), 2 => Just(Some(1usize)), 2 => Just(Some(2usize)), 1 => Just(Some(3usize)), 1 => Just(Some(5usize)), 1 => Just(Some(8usize))].boxed()
}

pub struct Visit<M: Model> {
    pub path: Vec<(M::State, Option<M::Action>)>,
    pub thread: String,
}

pub struct RunOut<M: Model> {
    pub visits: Vec<Visit<M>>,
    pub unique: usize,
    pub state_count: usize,
    pub max_depth: usize,
    pub is_done: bool,
    /// `Err` = `discoveries()` panicked (e.g. while rebuilding a path)
    pub discoveries: Result<HashMap<&'static str, Path<M::State, M::Action>>, String>,
    /// did `assert_properties` return normally?
    pub assert_ok: bool,
    /// a worker thread panicked
    pub worker_panicked: bool,
    pub waited: Duration,
    /// the wait for the workers gave up (nothing below is meaningful)
    pub gave_up: bool,
}

pub fn builder<M>(model: M, cfg: &RunCfg, names: &[&'static str], rep: Option<fn(&M::State) -> M::State>) -> CheckerBuilder<M>
where
    M: Model + Send + Sync + 'static,
    M::State: Hash + Send + Sync,
{
    let mut b = model.checker().threads(cfg.threads);
    if let Some(f) = &cfg.finish {
        b = b.finish_when(f.to_real(names));
    }
    if let Some(t) = cfg.target_state_count {
        b = b.target_state_count(t);
    }
    if let Some(d) = cfg.target_max_depth {
        b = b.target_max_depth(d);
    }
    if let Some(ms) = cfg.timeout_ms {
        b = b.timeout(Duration::from_millis(ms));
    }
    if cfg.symmetry {
        b = b.symmetry_fn(rep.expect("symmetry requested without a representative function"));
    }
    b
}

/// Spawns the checker, waits for its workers (not through `join`, see C05/C19 for that) and
/// collects the observable results.
pub fn run_checker<M>(
    model: M,
    cfg: &RunCfg,
    names: &[&'static str],
    rep: Option<fn(&M::State) -> M::State>,
    record: bool,
    max_wait: Duration,
) -> RunOut<M>
where
    M: Model + Send + Sync + 'static,
    M::State: Hash + Send + Sync + Clone + std::fmt::Debug + 'static,
    M::Action: Send + Sync + Clone + std::fmt::Debug + 'static,
{
    let visits: Arc<Mutex<Vec<Visit<M>>>> = Arc::new(Mutex::new(Vec::new()));
    let mut b = builder(model, cfg, names, rep);
    if record {
        let v = Arc::clone(&visits);
        b = b.visitor(move |p: Path<M::State, M::Action>| {
            let thread = std::thread::current().name().unwrap_or("").to_string();
            v.lock().unwrap().push(Visit {
                path: p.into_vec(),
                thread,
            });
        });
    }
    fn finish<M: Model, C: Checker<M>>(
        mut c: C,
        workers: usize,
        visits: Arc<Mutex<Vec<Visit<M>>>>,
        max_wait: Duration,
    ) -> RunOut<M>
    where
        M::State: std::fmt::Debug,
        M::Action: std::fmt::Debug,
    {
        let t0 = Instant::now();
        let handles = c.handles();
        let mut gave_up = false;
        loop {
            let fin = handles.iter().filter(|h| h.is_finished()).count();
            if fin >= workers.min(handles.len()) {
                break;
            }
            if t0.elapsed() > max_wait {
                gave_up = true;
                break;
            }
            std::thread::sleep(Duration::from_micros(100));
        }
        let waited = t0.elapsed();
        let mut worker_panicked = false;
        if !gave_up {
            for h in handles {
                if h.is_finished() {
                    if h.join().is_err() {
                        worker_panicked = true;
                    }
                }
            }
        }
        let discoveries = catch_quiet(|| c.discoveries());
        let assert_ok = catch_quiet(|| c.assert_properties()).is_ok();
        let visits = std::mem::take(&mut *visits.lock().unwrap());
        RunOut {
            visits,
            unique: c.unique_state_count(),
            state_count: c.state_count(),
            max_depth: c.max_depth(),
            is_done: c.is_done(),
            discoveries,
            assert_ok,
            worker_panicked,
            waited,
            gave_up,
        }
    }
    // the checker captures the context of the spawning thread (hook H3)
    stateright::verif_hooks::set_spawn_ctx(cfg.block_size.map(|b| {
        Arc::new(stateright::verif_hooks::Ctx { block_size: Some(b), sched: None })
    }));
    struct ClearCtx;
    impl Drop for ClearCtx {
        fn drop(&mut self) {
            stateright::verif_hooks::set_spawn_ctx(None);
        }
    }
    let _clear = ClearCtx;
    match cfg.strat {
        Strat::Bfs => finish(b.spawn_bfs(), cfg.threads, visits, max_wait),
        Strat::Dfs => finish(b.spawn_dfs(), cfg.threads, visits, max_wait),
        Strat::OnDemand => {
            let c = b.spawn_on_demand();
            c.run_to_completion();
            finish(c, cfg.threads, visits, max_wait)
        }
        Strat::Sim(seed) => finish(b.spawn_simulation(seed, UniformChooser), cfg.threads, visits, max_wait),
    }
}
