//! Coverage-guided tier: the same sub-checks driven from libFuzzer bytes.
//!
//! `one_input` is the body of the libFuzzer target in /verif/fuzz (built with
//! `cargo +nightly fuzz build`, which instruments stateright, proptest and this crate). The bytes
//! are fed to the sub-check's own proptest strategy through proptest's pass-through RNG, so every
//! byte string denotes a case of the same type the proptest search generates, mutations of the
//! bytes are mutations of the case, and the oracle is the same function. A failing case is written
//! as a replay file and the process aborts (libFuzzer keeps the bytes as an artifact); the parent
//! (`campaigns`, called by `srv <ID> thorough`) re-runs the oracle on the decoded case in the
//! plain, non-instrumented harness before anything is reported.

use crate::engine::*;
use serde_json::{json, Value};
use std::cell::RefCell;
use std::process::{Command, Stdio};
use std::time::{Duration, Instant};

struct Session {
    prop: String,
    sub: String,
    verif_dir: String,
    stats_path: Option<String>,
    known_open: Vec<String>,
    step: Box<dyn FnMut(&[u8], &mut Cov) -> FuzzStep>,
    cov: Cov,
    execs: u64,
    rejected: u64,
    tolerated: u64,
    inconclusive: u64,
}

thread_local! {
    static SESSION: RefCell<Option<Session>> = RefCell::new(None);
}

fn init() -> Session {
    install_panic_hook();
    let prop = std::env::var("VERIF_FUZZ_PROP").expect("VERIF_FUZZ_PROP");
    let sub = std::env::var("VERIF_FUZZ_SUB").expect("VERIF_FUZZ_SUB");
    let verif_dir = std::env::var("VERIF_DIR").unwrap_or_else(|_| "/verif".to_string());
    let spec: &'static PropSpec = Box::leak(Box::new(crate::props::spec(&prop).expect("unknown property")));
    let s = spec.subs.iter().find(|s| s.name() == sub).expect("unknown sub-check");
    let known_open = std::fs::read_to_string(format!("{}/known_findings.jsonl", verif_dir))
        .unwrap_or_default()
        .lines()
        .filter_map(|l| serde_json::from_str::<KnownFinding>(l).ok())
        .filter(|k| k.property == prop && k.status == "open")
        .map(|k| k.key)
        .collect();
    Session {
        prop,
        sub,
        verif_dir,
        stats_path: std::env::var("VERIF_FUZZ_STATS").ok(),
        known_open,
        step: s.fuzz_session(Tier::Thorough),
        cov: Cov::new(3),
        execs: 0,
        rejected: 0,
        tolerated: 0,
        inconclusive: 0,
    }
}

impl Session {
    fn write_stats(&self) {
        if let Some(p) = &self.stats_path {
            let doc = json!({
                "execs": self.execs, "rejected": self.rejected, "evaluations": self.cov.evaluations,
                "distinct_nontrivial": self.cov.nontrivial.len(), "labels": self.cov.labels,
                "known_findings_tolerated": self.tolerated, "inconclusive": self.inconclusive,
                "samples": self.cov.samples,
            });
            let tmp = format!("{}.tmp", p);
            if std::fs::write(&tmp, serde_json::to_string(&doc).unwrap()).is_ok() {
                let _ = std::fs::rename(&tmp, p);
            }
        }
    }
}

/// Body of the libFuzzer target.
pub fn one_input(data: &[u8]) {
    SESSION.with(|cell| {
        let mut guard = cell.borrow_mut();
        let s = guard.get_or_insert_with(init);
        s.execs += 1;
        let Session { step, cov, .. } = s;
        match step(data, cov) {
            FuzzStep::Rejected => s.rejected += 1,
            FuzzStep::Pass => {}
            FuzzStep::Failed { fail, .. } if s.known_open.contains(&fail.sig) => s.tolerated += 1,
            FuzzStep::Failed { fail, .. } if fail.sig.starts_with("inconclusive") => s.inconclusive += 1,
            FuzzStep::Failed { case, fail } => {
                let path = format!("{}/replays/{}-{}-fuzz.json", s.verif_dir, s.prop, s.sub);
                let doc = json!({
                    "property": s.prop, "sub": s.sub, "sig": fail.sig, "detail": fail.detail,
                    "found_by": "libFuzzer", "case": case,
                });
                let _ = std::fs::create_dir_all(format!("{}/replays", s.verif_dir));
                let _ = std::fs::write(&path, serde_json::to_string_pretty(&doc).unwrap());
                s.write_stats();
                eprintln!("fuzz: oracle failure sig: {}\nfuzz: case written to {}", fail.sig, path);
                std::process::abort();
            }
        }
        if s.execs % 500 == 0 || s.execs.is_power_of_two() {
            s.write_stats();
        }
    })
}

fn splitmix(x: &mut u64) -> u64 {
    *x = x.wrapping_add(0x9E3779B97F4A7C15);
    let mut z = *x;
    z = (z ^ (z >> 30)).wrapping_mul(0xBF58476D1CE4E5B9);
    z = (z ^ (z >> 27)).wrapping_mul(0x94D049BB133111EB);
    z ^ (z >> 31)
}

pub fn fuzz_binary(verif_dir: &str) -> String {
    format!("{}/target/x86_64-unknown-linux-gnu/release/sub", verif_dir)
}

pub struct CampaignOutcome {
    pub report: Value,
    pub violation: Option<Violation>,
    pub inconclusive: Vec<String>,
}

/// Runs one libFuzzer campaign per fuzzable sub-check of `spec` (in parallel), each for a fixed
/// number of runs from a fresh corpus of seeded pseudo-random byte strings, and confirms any
/// failure in this (non-instrumented) process.
pub fn campaigns(ctx: &Ctx, spec: &PropSpec) -> CampaignOutcome {
    let bin = fuzz_binary(&ctx.verif_dir);
    let subs: Vec<&Box<dyn ErasedSub>> = spec
        .subs
        .iter()
        .filter(|s| s.fuzzable() && ctx.only_sub.as_deref().map_or(true, |o| o == s.name()))
        .collect();
    if subs.is_empty() {
        return CampaignOutcome { report: json!({"status": "no fuzzable sub-check"}), violation: None, inconclusive: vec![] };
    }
    if !std::path::Path::new(&bin).exists() {
        return CampaignOutcome {
            report: json!({"status": "unavailable", "why": format!("{} not built (cargo +nightly fuzz build failed or was skipped)", bin)}),
            violation: None,
            inconclusive: vec![],
        };
    }
    let runs: u64 = std::env::var("VERIF_FUZZ_RUNS").ok().and_then(|s| s.parse().ok()).unwrap_or(((60_000.0) * ctx.scale) as u64);
    let max_time: u64 = std::env::var("VERIF_FUZZ_TIME").ok().and_then(|s| s.parse().ok()).unwrap_or(150);
    let results: Vec<(String, Value, Option<Violation>, Option<String>)> = std::thread::scope(|sc| {
        let hs: Vec<_> = subs
            .iter()
            .map(|s| {
                let bin = bin.clone();
                sc.spawn(move || one_campaign(ctx, s.as_ref(), &bin, runs, max_time))
            })
            .collect();
        hs.into_iter().map(|h| h.join().unwrap()).collect()
    });
    let mut report = serde_json::Map::new();
    let mut violation = None;
    let mut inconclusive = vec![];
    for (name, r, v, inc) in results {
        report.insert(name.clone(), r);
        if violation.is_none() {
            violation = v;
        }
        if let Some(i) = inc {
            inconclusive.push(format!("{}: {}", name, i));
        }
    }
    CampaignOutcome {
        report: json!({"status": "ran", "engine": "libFuzzer (cargo-fuzz), bytes -> proptest strategy via pass-through RNG -> same oracle", "runs_per_subcheck": runs, "max_total_time_s": max_time, "subchecks": report}),
        violation,
        inconclusive,
    }
}

fn one_campaign(ctx: &Ctx, s: &dyn ErasedSub, bin: &str, runs: u64, max_time: u64) -> (String, Value, Option<Violation>, Option<String>) {
    let name = s.name().to_string();
    let tag = format!("{}-{}", ctx.prop, name);
    let corpus = format!("{}/fuzz/corpus/{}", ctx.verif_dir, tag);
    let artifacts = format!("{}/fuzz/artifacts/{}/", ctx.verif_dir, tag);
    let stats = format!("{}/fuzz/artifacts/{}.stats.json", ctx.verif_dir, tag);
    let replay = format!("{}/replays/{}-fuzz.json", ctx.verif_dir, tag);
    let _ = std::fs::remove_dir_all(&corpus);
    let _ = std::fs::remove_dir_all(&artifacts);
    let _ = std::fs::remove_file(&stats);
    let _ = std::fs::remove_file(&replay);
    std::fs::create_dir_all(&corpus).expect("corpus dir");
    std::fs::create_dir_all(&artifacts).expect("artifact dir");
    // fresh corpus: seeded pseudo-random byte strings of several lengths (every byte string is a
    // valid case, so these are valid cases of the kind the proptest search produces)
    let mut x = ctx.seed ^ hash_of(&tag);
    for i in 0..48u32 {
        let len = [64usize, 256, 1024, 4096, 12288][(i % 5) as usize];
        let mut buf = Vec::with_capacity(len);
        while buf.len() < len {
            buf.extend_from_slice(&splitmix(&mut x).to_le_bytes());
        }
        std::fs::write(format!("{}/seed-{:02}", corpus, i), &buf).expect("seed file");
    }
    let t0 = Instant::now();
    let log_path = format!("{}/fuzz/artifacts/{}.log", ctx.verif_dir, tag);
    let log = std::fs::File::create(&log_path).expect("log file");
    let mut child = Command::new(bin)
        .arg(&corpus)
        .arg(format!("-runs={}", runs))
        .arg(format!("-max_total_time={}", max_time))
        .arg(format!("-seed={}", ((ctx.seed ^ hash_of(&tag)) % 0xFFFF_FFFE) + 1))
        .arg("-len_control=0")
        .arg("-max_len=16384")
        .arg("-timeout=300")
        .arg("-rss_limit_mb=8192")
        .arg("-print_final_stats=1")
        .arg(format!("-artifact_prefix={}", artifacts))
        .env("VERIF_FUZZ_PROP", &ctx.prop)
        .env("VERIF_FUZZ_SUB", &name)
        .env("VERIF_FUZZ_STATS", &stats)
        .env("VERIF_DIR", &ctx.verif_dir)
        .stdout(Stdio::null())
        .stderr(Stdio::from(log))
        .spawn()
        .expect("spawn fuzz binary");
    let deadline = Instant::now() + Duration::from_secs(max_time + 600);
    let status = loop {
        match child.try_wait() {
            Ok(Some(st)) => break Some(st),
            Ok(None) if Instant::now() > deadline => {
                let _ = child.kill();
                let _ = child.wait();
                break None;
            }
            Ok(None) => std::thread::sleep(Duration::from_millis(200)),
            Err(_) => break None,
        }
    };
    let wall = t0.elapsed().as_secs_f64();
    let stats_doc: Value = std::fs::read_to_string(&stats).ok().and_then(|t| serde_json::from_str(&t).ok()).unwrap_or(Value::Null);
    let log_text = std::fs::read_to_string(&log_path).unwrap_or_default();
    let stat = |k: &str| -> Option<u64> {
        log_text.lines().rev().find_map(|l| l.strip_prefix(k).and_then(|r| r.trim().parse().ok()))
    };
    let cov_edges = log_text.lines().rev().find_map(|l| {
        let i = l.find(" cov: ")?;
        l[i + 6..].split_whitespace().next()?.parse::<u64>().ok()
    });
    let mut rep = json!({
        "executed_units": stat("stat::number_of_executed_units:"),
        "new_units_added": stat("stat::new_units_added:"),
        "edges_covered": cov_edges,
        "wall_s": (wall * 10.0).round() / 10.0,
        "target_stats": stats_doc,
    });
    let ok = status.map_or(false, |s| s.success());
    if ok {
        rep["result"] = json!("no failure");
        let _ = std::fs::remove_dir_all(&corpus);
        return (name, rep, None, None);
    }
    // non-zero exit: an oracle failure leaves a replay file; anything else is inconclusive
    if let Ok(text) = std::fs::read_to_string(&replay) {
        let doc: Value = serde_json::from_str(&text).unwrap_or(Value::Null);
        match s.replay(&doc["case"]) {
            Ok(Err(f)) if !ctx.is_open(&f.sig) => {
                rep["result"] = json!(format!("failure confirmed outside the fuzzer: {}", f.sig));
                let v = Violation { sub: name.clone(), sig: f.sig, detail: f.detail, case: doc["case"].clone(), replay_path: replay };
                return (name, rep, Some(v), None);
            }
            other => {
                let why = match other {
                    Ok(Ok(())) => "the case the fuzz target rejected passes in the non-instrumented harness".to_string(),
                    Ok(Err(f)) => format!("known finding {}", f.sig),
                    Err(e) => format!("case does not decode: {}", e),
                };
                rep["result"] = json!(format!("fuzz target aborted but not confirmed: {}", why));
                return (name, rep, None, Some(why));
            }
        }
    }
    let tail: String = log_text.lines().rev().take(12).collect::<Vec<_>>().into_iter().rev().collect::<Vec<_>>().join(" | ");
    rep["result"] = json!(format!("fuzz process ended abnormally without an oracle failure (timeout, OOM or crash): {}", tail.chars().take(600).collect::<String>()));
    (name, rep, None, Some("fuzz process ended abnormally without an oracle failure".to_string()))
}
