//! Shared engine: seeded proptest runners (one per worker thread), coverage accounting,
//! known-finding tolerance, shrinking to a replay file, evidence writer.
//!
//! Every random choice of a check is drawn inside a proptest strategy; a run is a pure function
//! of (code under test, VERIF_SEED, tier).

use proptest::strategy::BoxedStrategy;
use proptest::test_runner::{Config, RngSeed, TestCaseError, TestError, TestRunner};
use serde::de::DeserializeOwned;
use serde::Serialize;
use serde_json::{json, Value};
use std::cell::{Cell, RefCell};
use std::collections::{BTreeMap, HashSet};
use std::fmt::Debug;
use std::hash::{Hash, Hasher};
use std::sync::atomic::{AtomicBool, Ordering};
use std::time::Instant;

#[derive(Clone, Copy, Debug, PartialEq, Eq)]
pub enum Tier {
    Quick,
    Thorough,
}
impl Tier {
    pub fn name(self) -> &'static str {
        match self {
            Tier::Quick => "quick",
            Tier::Thorough => "thorough",
        }
    }
    /// `q` in the quick tier, `t` in the thorough tier.
    pub fn pick<T>(self, q: T, t: T) -> T {
        match self {
            Tier::Quick => q,
            Tier::Thorough => t,
        }
    }
}

/// An oracle failure. `sig` is the *signature* used to match known findings: it names what is
/// wrong (not the property), so a different violation of the same property has another signature.
#[derive(Clone, Debug)]
pub struct Fail {
    pub sig: String,
    pub detail: String,
}
impl Fail {
    pub fn new(sig: impl Into<String>, detail: impl Into<String>) -> Fail {
        Fail {
            sig: sig.into(),
            detail: detail.into(),
        }
    }
}
#[macro_export]
macro_rules! fail {
    ($sig:expr, $($arg:tt)*) => {
        return Err($crate::engine::Fail::new($sig, format!($($arg)*)))
    };
}
#[macro_export]
macro_rules! ensure {
    ($cond:expr, $sig:expr, $($arg:tt)*) => {
        if !($cond) {
            return Err($crate::engine::Fail::new($sig, format!($($arg)*)));
        }
    };
}

/// One line of /verif/known_findings.jsonl.
#[derive(Clone, Debug, serde::Deserialize)]
pub struct KnownFinding {
    pub property: String,
    pub key: String,
    pub status: String,
    #[serde(default)]
    pub commit: String,
    pub what: String,
}

pub struct Ctx {
    pub prop: String,
    pub tier: Tier,
    pub seed: u64,
    pub known: Vec<KnownFinding>,
    /// strict = replay mode: known findings are not tolerated silently but reported as such.
    pub verif_dir: String,
    /// optional scale factor for case counts (VERIF_SCALE, default 1.0) - used for sweeps only.
    pub scale: f64,
    /// restrict to one sub-check (debugging)
    pub only_sub: Option<String>,
}
impl Ctx {
    pub fn is_open(&self, sig: &str) -> bool {
        self.known
            .iter()
            .any(|k| k.property == self.prop && k.status == "open" && k.key == sig)
    }
}

/// Coverage of one sub-check (merged over workers).
#[derive(Default)]
pub struct Cov {
    pub evaluations: u64,
    pub nontrivial: HashSet<u64>,
    pub labels: BTreeMap<String, u64>,
    pub samples: Vec<Value>,
    pub known_hits: BTreeMap<String, u64>,
    pub counters: BTreeMap<String, u64>,
    sample_budget: usize,
}
impl Cov {
    pub fn new(sample_budget: usize) -> Cov {
        Cov {
            sample_budget,
            ..Default::default()
        }
    }
    /// One oracle comparison was executed.
    pub fn eval(&mut self) {
        self.evaluations += 1;
    }
    pub fn evals(&mut self, n: u64) {
        self.evaluations += n;
    }
    pub fn label(&mut self, l: &str) {
        *self.labels.entry(l.to_string()).or_insert(0) += 1;
    }
    pub fn label_if(&mut self, c: bool, l: &str) {
        if c {
            self.label(l)
        }
    }
    pub fn count(&mut self, k: &str, n: u64) {
        *self.counters.entry(k.to_string()).or_insert(0) += n;
    }
    /// Registers a non-trivial case by a canonical hash of it.
    pub fn nontrivial<T: Hash>(&mut self, key: &T) {
        self.nontrivial.insert(hash_of(key));
    }
    pub fn wants_sample(&self) -> bool {
        self.samples.len() < self.sample_budget
    }
    pub fn sample(&mut self, v: Value) {
        if self.wants_sample() {
            self.samples.push(v);
        }
    }
    fn merge(&mut self, o: Cov) {
        self.evaluations += o.evaluations;
        self.nontrivial.extend(o.nontrivial);
        for (k, v) in o.labels {
            *self.labels.entry(k).or_insert(0) += v;
        }
        for (k, v) in o.known_hits {
            *self.known_hits.entry(k).or_insert(0) += v;
        }
        for (k, v) in o.counters {
            *self.counters.entry(k).or_insert(0) += v;
        }
        for s in o.samples {
            if self.samples.len() < self.sample_budget.max(3) {
                self.samples.push(s);
            }
        }
    }
}

pub fn hash_of<T: Hash>(t: &T) -> u64 {
    let mut h = std::collections::hash_map::DefaultHasher::new();
    t.hash(&mut h);
    h.finish()
}

/// A sub-check: generator + oracle for one facet of a property.
pub trait SubCheck: Sync {
    type Case: Serialize + DeserializeOwned + Debug + Clone + Send + 'static;
    fn name(&self) -> &'static str;
    fn cases(&self, tier: Tier) -> u32;
    fn strategy(&self, tier: Tier) -> BoxedStrategy<Self::Case>;
    /// Runs the real code on the case and compares with the oracle.
    fn check(&self, case: &Self::Case, cov: &mut Cov) -> Result<(), Fail>;
    /// Labels that must be non-empty for the run to count as evidence.
    fn mandatory(&self) -> Vec<&'static str> {
        vec![]
    }
    fn workers(&self) -> usize {
        default_workers()
    }
    fn max_shrink_iters(&self) -> u32 {
        2000
    }
    /// Whether the thorough tier may additionally drive this sub-check from libFuzzer bytes
    /// (`fuzz.rs`): only for checks that are a pure function of the case and cheap per case.
    fn fuzzable(&self) -> bool {
        false
    }
}

pub fn default_workers() -> usize {
    let n = std::thread::available_parallelism()
        .map(|n| n.get())
        .unwrap_or(4);
    std::env::var("VERIF_WORKERS")
        .ok()
        .and_then(|s| s.parse().ok())
        .unwrap_or(n.min(16))
        .max(1)
}

pub struct Violation {
    pub sub: String,
    pub sig: String,
    pub detail: String,
    pub case: Value,
    pub replay_path: String,
}

pub struct SubOutcome {
    pub name: String,
    pub cov: Cov,
    pub violation: Option<Violation>,
    pub missing_mandatory: Vec<String>,
    pub wall_s: f64,
}

thread_local! {
    static LAST_PANIC: RefCell<String> = RefCell::new(String::new());
    static QUIET: Cell<bool> = Cell::new(false);
}

/// Installs a panic hook that stays silent for threads inside `catch_quiet` and for checker
/// worker threads (panics planted in model code are part of several checks).
pub fn install_panic_hook() {
    let default = std::panic::take_hook();
    std::panic::set_hook(Box::new(move |info| {
        let msg = if let Some(s) = info.payload().downcast_ref::<&str>() {
            s.to_string()
        } else if let Some(s) = info.payload().downcast_ref::<String>() {
            s.clone()
        } else {
            "<non-string panic>".to_string()
        };
        let loc = info
            .location()
            .map(|l| format!("{}:{}", l.file(), l.line()))
            .unwrap_or_default();
        LAST_PANIC.with(|p| *p.borrow_mut() = format!("{} @ {}", msg, loc));
        let quiet_thread = QUIET.with(|q| q.get());
        let name = std::thread::current().name().unwrap_or("").to_string();
        let verbose = std::env::var("VERIF_VERBOSE_PANICS").is_ok();
        if verbose || !(quiet_thread || name.starts_with("checker-") || name.starts_with("srv-") || msg.starts_with("poison:") || msg.starts_with("planted panic") || msg.starts_with("verif-scheduler:")) {
            default(info);
        }
    }));
}

/// Runs `f`, converting a panic into `Err(message)`.
pub fn catch_quiet<T>(f: impl FnOnce() -> T) -> Result<T, String> {
    let prev = QUIET.with(|q| q.replace(true));
    let r = std::panic::catch_unwind(std::panic::AssertUnwindSafe(f));
    QUIET.with(|q| q.set(prev));
    r.map_err(|e| {
        let from_payload = if let Some(s) = e.downcast_ref::<&str>() {
            s.to_string()
        } else if let Some(s) = e.downcast_ref::<String>() {
            s.clone()
        } else {
            String::new()
        };
        let last = LAST_PANIC.with(|p| p.borrow().clone());
        if last.starts_with(&from_payload) && !from_payload.is_empty() {
            last
        } else if from_payload.is_empty() {
            last
        } else {
            from_payload
        }
    })
}

fn first_line(s: &str) -> String {
    s.trim().lines().next().unwrap_or("").chars().take(80).collect()
}

fn checked<C: SubCheck>(c: &C, case: &C::Case, cov: &mut Cov) -> Result<(), Fail> {
    match catch_quiet(|| c.check(case, cov)) {
        Ok(r) => r,
        Err(msg) => Err(Fail::new(
            format!("harness-or-code-panic: {}", first_line(&msg)),
            msg,
        )),
    }
}

fn sub_seed(seed: u64, prop: &str, sub: &str, worker: usize) -> u64 {
    let mut h = std::collections::hash_map::DefaultHasher::new();
    // DefaultHasher::new() uses fixed keys: stable within a toolchain.
    (seed, prop, sub, worker as u64).hash(&mut h);
    h.finish()
}

struct WorkerResult<Case> {
    cov: Cov,
    failure: Option<(Case, Fail)>,
}

fn run_worker<C: SubCheck>(
    c: &C,
    ctx: &Ctx,
    worker: usize,
    cases: u32,
    stop: &AtomicBool,
) -> WorkerResult<C::Case> {
    let cfg = Config {
        cases,
        failure_persistence: None,
        rng_seed: RngSeed::Fixed(sub_seed(ctx.seed, &ctx.prop, c.name(), worker)),
        max_shrink_iters: c.max_shrink_iters(),
        max_global_rejects: 1 << 20,
        ..Config::default()
    };
    let mut runner = TestRunner::new(cfg);
    let cov = RefCell::new(Cov::new(if worker == 0 { 4 } else { 1 }));
    let failed = Cell::new(false);
    let first_failure: RefCell<Option<(C::Case, Fail)>> = RefCell::new(None);
    let strat = c.strategy(ctx.tier);
    let result = runner.run(&strat, |case| {
        if failed.get() {
            // failures that cost a watchdog period per attempt (hangs) are not shrunk
            if first_failure.borrow().as_ref().map_or(false, |(_, f)| f.sig.contains("did-not-return")) {
                return Ok(());
            }
            // shrinking: coverage no longer counted
            let mut scratch = Cov::new(0);
            return match checked(c, &case, &mut scratch) {
                Ok(()) => Ok(()),
                Err(f) if ctx.is_open(&f.sig) || f.sig.starts_with("inconclusive") => Ok(()),
                Err(f) => Err(TestCaseError::fail(f.sig)),
            };
        }
        if stop.load(Ordering::Relaxed) {
            return Ok(());
        }
        let mut cv = cov.borrow_mut();
        match checked(c, &case, &mut cv) {
            Ok(()) => Ok(()),
            Err(f) if ctx.is_open(&f.sig) => {
                *cv.known_hits.entry(f.sig.clone()).or_insert(0) += 1;
                Ok(())
            }
            Err(f) if f.sig.starts_with("inconclusive") => {
                eprintln!("srv: {}:{} {}: {}", ctx.prop, c.name(), f.sig, first_line(&f.detail));
                cv.count("inconclusive", 1);
                Ok(())
            }
            Err(f) => {
                failed.set(true);
                stop.store(true, Ordering::Relaxed);
                *first_failure.borrow_mut() = Some((case.clone(), f.clone()));
                Err(TestCaseError::fail(f.sig))
            }
        }
    });
    let failure = match result {
        Ok(()) => None,
        Err(TestError::Fail(_, minimal)) => {
            let mut scratch = Cov::new(0);
            let unshrunk = first_failure.borrow().as_ref().map_or(false, |(_, f)| f.sig.contains("did-not-return"));
            if unshrunk {
                let (case0, f0) = first_failure.borrow_mut().take().unwrap();
                return WorkerResult { cov: cov.into_inner(), failure: Some((case0, f0)) };
            }
            match checked(c, &minimal, &mut scratch) {
                Err(f) => Some((minimal, f)),
                Ok(()) => {
                    // the shrunk case passes when re-run: report the original failing case instead
                    let (case0, f0) = first_failure.borrow_mut().take().expect("first failure recorded");
                    Some((
                        case0,
                        Fail::new(
                            format!("nondeterministic/{}", f0.sig),
                            format!("(the shrunk case passed when re-run, so the failure depends on something outside the case; original failure follows)\n{}", f0.detail),
                        ),
                    ))
                }
            }
        }
        Err(TestError::Abort(r)) => {
            // generator problem, not a violation
            eprintln!("srv: {}:{} generator aborted: {}", ctx.prop, c.name(), r);
            None
        }
    };
    WorkerResult {
        cov: cov.into_inner(),
        failure,
    }
}

pub fn run_sub<C: SubCheck>(c: &C, ctx: &Ctx) -> SubOutcome {
    let t0 = Instant::now();
    let total = ((c.cases(ctx.tier) as f64) * ctx.scale).ceil().max(1.0) as u32;
    let workers = c.workers().min(total as usize).max(1);
    let per = total / workers as u32;
    let extra = total % workers as u32;
    let stop = AtomicBool::new(false);
    let results: Vec<WorkerResult<C::Case>> = std::thread::scope(|s| {
        let handles: Vec<_> = (0..workers)
            .map(|w| {
                let n = per + if (w as u32) < extra { 1 } else { 0 };
                let stop = &stop;
                std::thread::Builder::new()
                    .name(format!("srv-{}-{}", c.name(), w))
                    .stack_size(64 << 20)
                    .spawn_scoped(s, move || run_worker(c, ctx, w, n, stop))
                    .unwrap()
            })
            .collect();
        handles.into_iter().map(|h| h.join().unwrap()).collect()
    });
    let mut cov = Cov::new(6);
    let mut violation = None;
    for (w, r) in results.into_iter().enumerate() {
        cov.merge(r.cov);
        if violation.is_none() {
            if let Some((case, f)) = r.failure {
                let case_json = serde_json::to_value(&case).unwrap_or(Value::Null);
                let path = format!(
                    "{}/replays/{}-{}-seed{}-w{}.json",
                    ctx.verif_dir,
                    ctx.prop,
                    c.name(),
                    ctx.seed,
                    w
                );
                let doc = json!({
                    "property": ctx.prop, "sub": c.name(), "sig": f.sig, "detail": f.detail,
                    "seed": ctx.seed, "tier": ctx.tier.name(), "case": case_json,
                });
                let _ = std::fs::create_dir_all(format!("{}/replays", ctx.verif_dir));
                let _ = std::fs::write(&path, serde_json::to_string_pretty(&doc).unwrap());
                violation = Some(Violation {
                    sub: c.name().to_string(),
                    sig: f.sig,
                    detail: f.detail,
                    case: case_json,
                    replay_path: path,
                });
            }
        }
    }
    let missing_mandatory = if violation.is_none() {
        c.mandatory()
            .into_iter()
            .filter(|l| cov.labels.get(*l).copied().unwrap_or(0) == 0)
            .map(|s| s.to_string())
            .collect()
    } else {
        vec![]
    };
    SubOutcome {
        name: c.name().to_string(),
        cov,
        violation,
        missing_mandatory,
        wall_s: t0.elapsed().as_secs_f64(),
    }
}

pub fn replay_sub<C: SubCheck>(c: &C, case: &Value) -> Result<Result<(), Fail>, String> {
    let case: C::Case = serde_json::from_value(case.clone()).map_err(|e| e.to_string())?;
    let mut cov = Cov::new(0);
    Ok(checked(c, &case, &mut cov))
}

/// Type-erased sub-check so that a property is a list of them.
pub trait ErasedSub: Sync {
    fn name(&self) -> &'static str;
    fn run(&self, ctx: &Ctx) -> SubOutcome;
    fn replay(&self, case: &Value) -> Result<Result<(), Fail>, String>;
    fn fuzzable(&self) -> bool;
    /// A closure that decodes fuzzer bytes into a case through the sub-check's own proptest
    /// strategy (pass-through RNG) and runs the oracle on it.
    fn fuzz_session<'a>(&'a self, tier: Tier) -> Box<dyn FnMut(&[u8], &mut Cov) -> FuzzStep + 'a>;
    fn mandatory_labels(&self) -> Vec<&'static str>;
}

const FUZZ_TAIL_LEN: usize = 256 << 10;
fn fuzz_tail() -> &'static [u8] {
    static TAIL: std::sync::OnceLock<Vec<u8>> = std::sync::OnceLock::new();
    TAIL.get_or_init(|| {
        let mut x = 0x5EED_5EED_5EED_5EEDu64;
        let mut v = Vec::with_capacity(FUZZ_TAIL_LEN);
        while v.len() < FUZZ_TAIL_LEN {
            x = x.wrapping_add(0x9E3779B97F4A7C15);
            let mut z = x;
            z = (z ^ (z >> 30)).wrapping_mul(0xBF58476D1CE4E5B9);
            z = (z ^ (z >> 27)).wrapping_mul(0x94D049BB133111EB);
            v.extend_from_slice(&(z ^ (z >> 31)).to_le_bytes());
        }
        v
    })
}

/// Outcome of one fuzzer input.
pub enum FuzzStep {
    /// the bytes did not decode into a case (strategy rejected)
    Rejected,
    Pass,
    Failed { case: Value, fail: Fail },
}

impl<C: SubCheck> ErasedSub for C {
    fn name(&self) -> &'static str {
        SubCheck::name(self)
    }
    fn fuzzable(&self) -> bool {
        SubCheck::fuzzable(self)
    }
    fn mandatory_labels(&self) -> Vec<&'static str> {
        self.mandatory()
    }
    fn fuzz_session<'a>(&'a self, tier: Tier) -> Box<dyn FnMut(&[u8], &mut Cov) -> FuzzStep + 'a> {
        use proptest::strategy::{Strategy, ValueTree};
        use proptest::test_runner::{RngAlgorithm, TestRng};
        let strat = self.strategy(tier);
        Box::new(move |bytes: &[u8], cov: &mut Cov| {
            // The fuzz build links a patched proptest (vendor/proptest) whose pass-through RNGs all
            // read one shared per-thread stream: the case is a function of the input bytes consumed
            // in generation order. (Upstream halves the remaining bytes at every RNG fork, i.e. at
            // every `prop_oneof!`, and loops forever once they are used up.)
            #[cfg(srv_patched_proptest)]
            let rng = {
                proptest::test_runner::set_passthrough_stream(bytes);
                TestRng::from_seed(RngAlgorithm::PassThrough, &[])
            };
            #[cfg(not(srv_patched_proptest))]
            let rng = {
                let mut buf = Vec::with_capacity(bytes.len() + FUZZ_TAIL_LEN);
                buf.extend_from_slice(bytes);
                buf.extend_from_slice(fuzz_tail());
                TestRng::from_seed(RngAlgorithm::PassThrough, &buf)
            };
            let cfg = Config { failure_persistence: None, max_local_rejects: 64, max_global_rejects: 64, ..Config::default() };
            let mut runner = TestRunner::new_with_rng(cfg, rng);
            let case = match strat.new_tree(&mut runner) {
                Ok(t) => t.current(),
                Err(_) => return FuzzStep::Rejected,
            };
            match checked(self, &case, cov) {
                Ok(()) => FuzzStep::Pass,
                Err(fail) => FuzzStep::Failed { case: serde_json::to_value(&case).unwrap_or(Value::Null), fail },
            }
        })
    }
    fn run(&self, ctx: &Ctx) -> SubOutcome {
        run_sub(self, ctx)
    }
    fn replay(&self, case: &Value) -> Result<Result<(), Fail>, String> {
        replay_sub(self, case)
    }
}

/// Static description of a property check.
pub struct PropSpec {
    pub id: &'static str,
    pub level: &'static str,
    pub rule: &'static str,
    pub assumptions: Vec<&'static str>,
    pub subs: Vec<Box<dyn ErasedSub>>,
}

/// Monotone index map (never `%`): shrinking a raw value shrinks the index.
pub fn idx(raw: u16, len: usize) -> usize {
    debug_assert!(len > 0);
    ((raw as usize) * len) >> 16
}
pub fn idx8(raw: u8, len: usize) -> usize {
    debug_assert!(len > 0);
    ((raw as usize) * len) >> 8
}
