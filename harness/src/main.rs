use serde_json::{json, Value};
use srv::engine::*;
use std::time::Instant;

fn usage() -> ! {
    eprintln!("usage: srv <C01..C20> quick|thorough | srv <ID> replay <file>");
    std::process::exit(2)
}

fn load_known(verif_dir: &str) -> Vec<KnownFinding> {
    let path = format!("{}/known_findings.jsonl", verif_dir);
    let Ok(text) = std::fs::read_to_string(&path) else { return vec![] };
    text.lines()
        .filter(|l| !l.trim().is_empty() && !l.trim_start().starts_with('#'))
        .map(|l| serde_json::from_str(l).unwrap_or_else(|e| panic!("bad known_findings line {l}: {e}")))
        .collect()
}

fn main() {
    let args: Vec<String> = std::env::args().collect();
    if args.len() < 3 {
        usage();
    }
    install_panic_hook();
    let verif_dir = std::env::var("VERIF_DIR").unwrap_or_else(|_| "/verif".to_string());
    let id = args[1].clone();
    let mode = args[2].as_str();
    // internal child-process entry points (timeouts, stress) are dispatched by the property module
    if mode == "child" {
        std::process::exit(srv::props::child(&id, &args[3..]));
    }
    let seed: u64 = std::env::var("VERIF_SEED").ok().and_then(|s| s.trim().parse::<i128>().ok()).map(|v| v as u64).unwrap_or(0);
    let scale: f64 = std::env::var("VERIF_SCALE").ok().and_then(|s| s.parse().ok()).unwrap_or(1.0);
    let tier = match mode {
        "quick" => Tier::Quick,
        "thorough" => Tier::Thorough,
        "replay" => Tier::Quick,
        _ => usage(),
    };
    let ctx = Ctx { prop: id.clone(), tier, seed, known: load_known(&verif_dir), verif_dir: verif_dir.clone(), scale, only_sub: std::env::var("VERIF_SUB").ok() };
    let Some(spec) = srv::props::spec(&id) else {
        eprintln!("srv: unknown property {}", id);
        std::process::exit(2)
    };

    if mode == "replay" {
        let file = args.get(3).unwrap_or_else(|| usage());
        let doc: Value = serde_json::from_str(&std::fs::read_to_string(file).expect("read replay file")).expect("replay json");
        let sub = doc["sub"].as_str().expect("sub");
        let Some(s) = spec.subs.iter().find(|s| s.name() == sub) else {
            eprintln!("srv: unknown sub-check {}", sub);
            std::process::exit(2)
        };
        match s.replay(&doc["case"]) {
            Err(e) => {
                eprintln!("srv: cannot decode case: {}", e);
                std::process::exit(2)
            }
            Ok(Ok(())) => {
                println!("REPLAY-PASS property={} sub={}", id, sub);
                std::process::exit(0)
            }
            Ok(Err(f)) => {
                if ctx.is_open(&f.sig) {
                    println!("KNOWN-FINDING: property={} {} [{}]", id, f.sig, f.detail.lines().next().unwrap_or(""));
                    std::process::exit(0)
                }
                println!("sig: {}\ndetail: {}", f.sig, f.detail);
                println!("VIOLATION property={} replay={}", id, file);
                std::process::exit(1)
            }
        }
    }

    let t0 = Instant::now();
    let mut evaluations = 0u64;
    let mut distinct = 0u64;
    let mut samples: Vec<Value> = vec![];
    let mut labels = serde_json::Map::new();
    let mut subs_json = serde_json::Map::new();
    let mut tolerated = serde_json::Map::new();
    let mut counters = serde_json::Map::new();
    let mut violations: Vec<Violation> = vec![];
    let mut missing: Vec<String> = vec![];
    // seconds-long replay tier: committed regression seeds (shrunk failing cases of earlier
    // findings and of seeded changes) are re-run first, without the generator
    let mut seeds_replayed = 0u64;
    let mut seeds_stale: Vec<String> = vec![];
    if ctx.only_sub.is_none() {
        let mut files: Vec<_> = std::fs::read_dir(format!("{}/replays/seeds", verif_dir))
            .map(|d| d.filter_map(|e| e.ok()).map(|e| e.path()).collect())
            .unwrap_or_default();
        files.sort();
        for f in files {
            let name = f.file_name().and_then(|n| n.to_str()).unwrap_or("").to_string();
            if !name.starts_with(&format!("{}-", id)) || !name.ends_with(".json") {
                continue;
            }
            let Some(doc) = std::fs::read_to_string(&f).ok().and_then(|t| serde_json::from_str::<Value>(&t).ok()) else {
                seeds_stale.push(name);
                continue;
            };
            let Some(s) = spec.subs.iter().find(|s| Some(s.name()) == doc["sub"].as_str()) else {
                seeds_stale.push(name);
                continue;
            };
            match s.replay(&doc["case"]) {
                Err(_) => seeds_stale.push(name),
                Ok(Ok(())) => seeds_replayed += 1,
                Ok(Err(fl)) if ctx.is_open(&fl.sig) => {
                    seeds_replayed += 1;
                    let e = tolerated.entry(fl.sig.clone()).or_insert(json!(0));
                    *e = json!(e.as_u64().unwrap_or(0) + 1);
                }
                Ok(Err(fl)) if fl.sig.starts_with("inconclusive") => seeds_stale.push(format!("{} ({})", name, fl.sig)),
                Ok(Err(fl)) => violations.push(Violation { sub: s.name().to_string(), sig: fl.sig, detail: fl.detail, case: doc["case"].clone(), replay_path: f.to_string_lossy().to_string() }),
            }
        }
        evaluations += seeds_replayed;
    }
    for s in &spec.subs {
        if !violations.is_empty() {
            break;
        }
        if let Some(only) = &ctx.only_sub {
            if only != s.name() {
                continue;
            }
        }
        if tier == Tier::Thorough && std::env::var("VERIF_ONLY_FUZZ").is_ok() {
            continue;
        }
        let o = s.run(&ctx);
        evaluations += o.cov.evaluations;
        distinct += o.cov.nontrivial.len() as u64;
        for (i, smp) in o.cov.samples.iter().enumerate() {
            if i < 3 {
                samples.push(json!({"sub": o.name, "case": smp}));
            }
        }
        labels.insert(o.name.clone(), json!(o.cov.labels));
        if !o.cov.counters.is_empty() {
            counters.insert(o.name.clone(), json!(o.cov.counters));
        }
        for (k, v) in &o.cov.known_hits {
            let e = tolerated.entry(k.clone()).or_insert(json!(0));
            *e = json!(e.as_u64().unwrap_or(0) + v);
        }
        subs_json.insert(o.name.clone(), json!({"evaluations": o.cov.evaluations, "distinct_nontrivial": o.cov.nontrivial.len(), "wall_s": (o.wall_s*1000.0).round()/1000.0}));
        for m in &o.missing_mandatory {
            missing.push(format!("{}:{}", o.name, m));
        }
        if let Some(v) = o.violation {
            violations.push(v);
        }
    }
    // thorough tier: coverage-guided campaigns over the same sub-checks (fuzz.rs)
    let mut fuzz_report = Value::Null;
    let mut fuzz_inconclusive: Vec<String> = vec![];
    if tier == Tier::Thorough && violations.is_empty() && std::env::var("VERIF_NO_FUZZ").is_err() {
        let out = srv::fuzz::campaigns(&ctx, &spec);
        if let Some(subs) = out.report["subchecks"].as_object() {
            for (_, r) in subs {
                evaluations += r["target_stats"]["evaluations"].as_u64().unwrap_or(0);
            }
        }
        fuzz_report = out.report;
        fuzz_inconclusive = out.inconclusive;
        if let Some(v) = out.violation {
            violations.push(v);
        }
    }
    let wall = t0.elapsed().as_secs_f64();
    let mut coverage = json!({
        "evaluations": evaluations,
        "distinct_nontrivial": distinct,
        "rule": spec.rule,
        "samples": samples,
        "labels": labels,
        "subchecks": subs_json,
        "known_findings_tolerated": tolerated,
        "mandatory_classes_missing": missing,
    });
    if !counters.is_empty() {
        coverage["counters"] = Value::Object(counters);
    }
    coverage["regression_seeds"] = json!({"replayed": seeds_replayed, "not_decodable_or_inconclusive": seeds_stale});
    if !fuzz_report.is_null() {
        coverage["fuzz"] = fuzz_report;
    }
    if !violations.is_empty() {
        coverage["violations"] = json!(violations.iter().map(|v| json!({"sub": v.sub, "sig": v.sig, "replay": v.replay_path, "detail": v.detail.chars().take(2000).collect::<String>()})).collect::<Vec<_>>());
    }
    let evidence = json!({
        "property_id": id, "tier": tier.name(), "seed": (seed as i64), "level": spec.level,
        "coverage": coverage,
        "assumptions": spec.assumptions,
        "wall_s": (wall*1000.0).round()/1000.0,
        "violations": violations.len(),
    });
    let _ = std::fs::create_dir_all(format!("{}/evidence", verif_dir));
    if std::env::var("VERIF_ONLY_FUZZ").is_ok() {
        // debugging mode (campaigns without the proptest search): not a registered check, separate file
        let _ = std::fs::write(format!("{}/evidence/{}.fuzzonly.json", verif_dir, id), serde_json::to_string_pretty(&evidence).unwrap());
    } else if ctx.only_sub.is_none() {
        std::fs::write(format!("{}/evidence/{}.json", verif_dir, id), serde_json::to_string_pretty(&evidence).unwrap()).expect("write evidence");
    }
    for k in ctx.known.iter().filter(|k| k.property == id && k.status == "open") {
        let hits = evidence["coverage"]["known_findings_tolerated"][&k.key].as_u64().unwrap_or(0);
        println!("KNOWN-FINDING: property={} {} — {} (tolerated {} time(s) in this run)", id, k.key, k.what, hits);
    }
    println!("srv: {} {} seed={} evaluations={} distinct_nontrivial={} wall={:.1}s", id, tier.name(), seed, evaluations, distinct, wall);
    if !violations.is_empty() {
        for v in &violations {
            println!("sig: {}\ndetail: {}", v.sig, v.detail.chars().take(3000).collect::<String>());
            println!("VIOLATION property={} replay={}", id, v.replay_path);
        }
        std::process::exit(1);
    }
    let inconclusive: u64 = evidence["coverage"]["counters"].as_object().map(|o| o.values().filter_map(|v| v["inconclusive"].as_u64()).sum()).unwrap_or(0);
    if inconclusive > 0 {
        eprintln!("srv: INCONCLUSIVE — {} case(s) hit a watchdog or resource limit", inconclusive);
        std::process::exit(2);
    }
    if !fuzz_inconclusive.is_empty() {
        eprintln!("srv: INCONCLUSIVE — fuzz campaign(s): {:?}", fuzz_inconclusive);
        std::process::exit(2);
    }
    if !missing.is_empty() {
        eprintln!("srv: INCONCLUSIVE — mandatory case classes were never generated: {:?}", missing);
        std::process::exit(2);
    }
    std::process::exit(0);
}
