//! `srv` — property-based verification harness for getong/stateright (see /verif/DESIGN.md).
pub mod engine;
pub mod fuzz;
pub mod graph;
pub mod hist;
pub mod props;
pub mod rechash;
pub mod refsys;
pub mod runner;
pub mod sched;
