//! RefSys: table-driven actor systems + an independent reference interpreter of the actor-model
//! semantics (DESIGN.md appendix B), and a differential driver that walks the real
//! `ActorModel` through `Model::init_states/actions/next_state` next to the reference.

use crate::engine::{idx8, Fail};
use proptest::prelude::*;
use serde::{Deserialize, Serialize};
use stateright::actor::*;
use stateright::Model;
use std::borrow::Cow;
use std::collections::{BTreeMap, BTreeSet, HashMap, HashSet, VecDeque};
use std::sync::Arc;

pub const NS: u8 = 3; // actor states
pub const NM: u8 = 4; // message values
pub const NT: u8 = 2; // timers
pub const NR: u8 = 3; // random values
pub const NK: u8 = 2; // random keys

#[derive(Clone, Debug, Serialize, Deserialize, PartialEq, Eq, Hash, PartialOrd, Ord)]
pub enum Cmd {
    Send(usize, u8),
    SetTimer(u8),
    CancelTimer(u8),
    Choose(u8, Vec<u8>),
    Remove(u8),
}

#[derive(Clone, Debug, Serialize, Deserialize, PartialEq, Eq, Hash)]
pub struct Reaction {
    pub new_state: Option<u8>,
    pub cmds: Vec<Cmd>,
}

/// Behaviour tables, dense: `[state][event]`.
#[derive(Clone, Debug, Serialize, Deserialize, PartialEq, Eq, Hash)]
pub struct Tables {
    pub start: (u8, Vec<Cmd>),
    pub msg: Vec<Vec<Option<Reaction>>>,
    pub timeout: Vec<Vec<Option<Reaction>>>,
    pub random: Vec<Vec<Option<Reaction>>>,
}
impl Tables {
    pub fn on_msg(&self, st: u8, m: u8) -> Option<&Reaction> {
        self.msg.get(st as usize).and_then(|r| r.get(m as usize)).and_then(|x| x.as_ref())
    }
    pub fn on_timeout(&self, st: u8, t: u8) -> Option<&Reaction> {
        self.timeout.get(st as usize).and_then(|r| r.get(t as usize)).and_then(|x| x.as_ref())
    }
    pub fn on_random(&self, st: u8, c: u8) -> Option<&Reaction> {
        self.random.get(st as usize).and_then(|r| r.get(c as usize)).and_then(|x| x.as_ref())
    }
}

#[derive(Clone, Copy, Debug, Serialize, Deserialize, PartialEq, Eq, Hash)]
pub enum NetKind {
    Ordered,
    NonDup,
    Dup,
}

#[derive(Clone, Debug, Serialize, Deserialize, PartialEq, Eq, Hash)]
pub struct HistCfg {
    /// record incoming messages with `msg % in_mod == 0` (0 = never)
    pub in_mod: u8,
    /// record outgoing messages with `msg % out_mod != 0` (0 = never)
    pub out_mod: u8,
    pub cap: usize,
    /// boundary: states whose network holds more messages are outside
    #[serde(default = "default_net_bound")]
    pub net_bound: usize,
}
fn default_net_bound() -> usize {
    usize::MAX
}
fn net_boundary(cfg: &HistCfg, s: &RealState) -> bool {
    s.network.len() <= cfg.net_bound
}
pub fn net_boundary_g<A: Actor>(cfg: &HistCfg, s: &ActorModelState<A, Hist>) -> bool {
    s.network.len() <= cfg.net_bound
}

#[derive(Clone, Debug, Serialize, Deserialize, PartialEq, Eq, Hash)]
pub struct SysDesc {
    pub actors: Vec<Tables>,
    pub net: NetKind,
    pub lossy: bool,
    pub max_crashes: usize,
    pub init_env: Vec<(usize, usize, u8)>,
    pub hist: HistCfg,
}

pub fn key_name(k: u8) -> String {
    format!("k{}", k)
}

// ------------------------------------------------------------------------------------------
// The real actor
// ------------------------------------------------------------------------------------------

/// Message types the table-driven actors can speak: a bijection with the small message alphabet.
pub trait MsgCodec: Clone + std::fmt::Debug + Eq + std::hash::Hash + Send + Sync + 'static {
    fn to_u8(&self) -> u8;
    fn from_u8(m: u8) -> Self;
}
impl MsgCodec for u8 {
    fn to_u8(&self) -> u8 {
        *self
    }
    fn from_u8(m: u8) -> u8 {
        m
    }
}

/// Table-driven actor speaking message type `M`; `K` only makes distinct Rust types.
pub struct TG<M, const K: u8 = 0>(pub Arc<Tables>, pub std::marker::PhantomData<fn() -> M>);
impl<M, const K: u8> Clone for TG<M, K> {
    fn clone(&self) -> Self {
        TG(self.0.clone(), std::marker::PhantomData)
    }
}
impl<M, const K: u8> TG<M, K> {
    pub fn new(t: Arc<Tables>) -> Self {
        TG(t, std::marker::PhantomData)
    }
}
pub type TActor = TG<u8, 0>;
#[allow(non_snake_case)]
pub fn TActor(t: Arc<Tables>) -> TActor {
    TG::new(t)
}

pub fn emit<M: MsgCodec, A: Actor<Msg = M, Timer = u8, Random = u8>>(cmds: &[Cmd], o: &mut Out<A>) {
    for c in cmds {
        match c {
            Cmd::Send(d, m) => o.send(Id::from(*d), M::from_u8(*m)),
            Cmd::SetTimer(t) => o.set_timer(*t, model_timeout()),
            Cmd::CancelTimer(t) => o.cancel_timer(*t),
            Cmd::Choose(k, v) => o.choose_random(key_name(*k), v.clone()),
            Cmd::Remove(k) => o.remove_random(key_name(*k)),
        }
    }
}

impl<M: MsgCodec, const K: u8> Actor for TG<M, K> {
    type Msg = M;
    type State = u8;
    type Timer = u8;
    type Random = u8;
    fn on_start(&self, _: Id, o: &mut Out<Self>) -> u8 {
        emit(&self.0.start.1, o);
        self.0.start.0
    }
    fn on_msg(&self, _: Id, s: &mut Cow<u8>, _src: Id, m: M, o: &mut Out<Self>) {
        if let Some(r) = self.0.on_msg(**s, m.to_u8()) {
            if let Some(n) = r.new_state {
                *s.to_mut() = n;
            }
            emit(&r.cmds, o);
        }
    }
    fn on_timeout(&self, _: Id, s: &mut Cow<u8>, t: &u8, o: &mut Out<Self>) {
        if let Some(r) = self.0.on_timeout(**s, *t) {
            if let Some(n) = r.new_state {
                *s.to_mut() = n;
            }
            emit(&r.cmds, o);
        }
    }
    fn on_random(&self, _: Id, s: &mut Cow<u8>, c: &u8, o: &mut Out<Self>) {
        if let Some(r) = self.0.on_random(**s, *c) {
            if let Some(n) = r.new_state {
                *s.to_mut() = n;
            }
            emit(&r.cmds, o);
        }
    }
}

pub type Hist = Vec<(bool, usize, usize, u8)>;

pub fn rec_in<M: MsgCodec>(cfg: &HistCfg, h: &Hist, e: Envelope<&M>) -> Option<Hist> {
    let m = e.msg.to_u8();
    if cfg.in_mod != 0 && m % cfg.in_mod == 0 && h.len() < cfg.cap {
        let mut h = h.clone();
        h.push((true, e.src.into(), e.dst.into(), m));
        Some(h)
    } else {
        None
    }
}
pub fn rec_out<M: MsgCodec>(cfg: &HistCfg, h: &Hist, e: Envelope<&M>) -> Option<Hist> {
    let m = e.msg.to_u8();
    if cfg.out_mod != 0 && m % cfg.out_mod != 0 && h.len() < cfg.cap {
        let mut h = h.clone();
        h.push((false, e.src.into(), e.dst.into(), m));
        Some(h)
    } else {
        None
    }
}

pub type RealModel = ActorModel<TActor, HistCfg, Hist>;
pub type RealState = ActorModelState<TActor, Hist>;
pub type RealAction = ActorModelAction<u8, u8, u8>;

pub fn env_of(e: &(usize, usize, u8)) -> Envelope<u8> {
    Envelope { src: Id::from(e.0), dst: Id::from(e.1), msg: e.2 }
}

impl SysDesc {
    pub fn n(&self) -> usize {
        self.actors.len()
    }
    /// The same system with every actor wrapped by `wrap` (an adapter under test).
    pub fn wrapped_model<M: MsgCodec, A: Actor<Msg = M, Timer = u8, Random = u8>>(&self, wrap: &dyn Fn(usize, Arc<Tables>) -> A) -> ActorModel<A, HistCfg, Hist> {
        ActorModel::new(self.hist.clone(), Vec::new())
            .actors(self.actors.iter().enumerate().map(|(i, t)| wrap(i, Arc::new(t.clone()))))
            .init_network(self.real_network_g::<M>())
            .lossy_network(if self.lossy { LossyNetwork::Yes } else { LossyNetwork::No })
            .max_crashes(self.max_crashes)
            .record_msg_in(rec_in::<M>)
            .record_msg_out(rec_out::<M>)
            .within_boundary(net_boundary_g::<A>)
            .property(stateright::Expectation::Always, "true", |_, _| true)
    }
    pub fn real_network_g<M: MsgCodec>(&self) -> Network<M> {
        let envs = self.init_env.iter().map(|e| Envelope { src: Id::from(e.0), dst: Id::from(e.1), msg: M::from_u8(e.2) });
        match self.net {
            NetKind::Ordered => Network::new_ordered(envs),
            NetKind::NonDup => Network::new_unordered_nonduplicating(envs),
            NetKind::Dup => Network::new_unordered_duplicating(envs),
        }
    }
    pub fn real_network(&self) -> Network<u8> {
        let envs = self.init_env.iter().map(env_of);
        match self.net {
            NetKind::Ordered => Network::new_ordered(envs),
            NetKind::NonDup => Network::new_unordered_nonduplicating(envs),
            NetKind::Dup => Network::new_unordered_duplicating(envs),
        }
    }
    pub fn real_model(&self) -> RealModel {
        ActorModel::new(self.hist.clone(), Vec::new())
            .actors(self.actors.iter().map(|t| TActor(Arc::new(t.clone()))))
            .init_network(self.real_network())
            .lossy_network(if self.lossy { LossyNetwork::Yes } else { LossyNetwork::No })
            .max_crashes(self.max_crashes)
            .record_msg_in(rec_in::<u8>)
            .record_msg_out(rec_out::<u8>)
            .within_boundary(net_boundary)
            // a property that never gets a discovery, so that a checker run is never cut short
            .property(stateright::Expectation::Always, "true", |_, _| true)
    }
}

// ------------------------------------------------------------------------------------------
// The reference interpreter (appendix B)
// ------------------------------------------------------------------------------------------

#[derive(Clone, PartialEq, Eq, Debug, Hash, PartialOrd, Ord, Serialize)]
pub enum RNet {
    /// FIFO queue per directed flow; flows are never empty
    Ordered(BTreeMap<(usize, usize), VecDeque<u8>>),
    /// multiset of envelopes
    NonDup(BTreeMap<(usize, usize, u8), usize>),
    /// live set + last delivered envelope
    Dup(BTreeSet<(usize, usize, u8)>, Option<(usize, usize, u8)>),
}

#[derive(Clone, PartialEq, Eq, Debug, Hash, Serialize)]
pub struct RState {
    pub actors: Vec<u8>,
    pub timers: Vec<BTreeSet<u8>>,
    pub choices: Vec<BTreeMap<String, Vec<u8>>>,
    pub crashed: Vec<bool>,
    pub history: Hist,
    pub net: RNet,
}

#[derive(Clone, PartialEq, Eq, Debug, Hash, PartialOrd, Ord, Serialize)]
pub enum RAct {
    Deliver(usize, usize, u8),
    Drop(usize, usize, u8),
    Timeout(usize, u8),
    Crash(usize),
    Select(usize, String, u8),
}

impl RNet {
    pub fn new(kind: NetKind) -> RNet {
        match kind {
            NetKind::Ordered => RNet::Ordered(Default::default()),
            NetKind::NonDup => RNet::NonDup(Default::default()),
            NetKind::Dup => RNet::Dup(Default::default(), None),
        }
    }
    pub fn send(&mut self, s: usize, d: usize, m: u8) {
        match self {
            RNet::Ordered(f) => f.entry((s, d)).or_default().push_back(m),
            RNet::NonDup(c) => *c.entry((s, d, m)).or_insert(0) += 1,
            RNet::Dup(l, _) => {
                l.insert((s, d, m));
            }
        }
    }
    /// distinct deliverable envelopes
    pub fn deliverable(&self) -> Vec<(usize, usize, u8)> {
        match self {
            RNet::Ordered(f) => f.iter().map(|((s, d), q)| (*s, *d, q[0])).collect(),
            RNet::NonDup(c) => c.keys().cloned().collect(),
            RNet::Dup(l, _) => l.iter().cloned().collect(),
        }
    }
    /// every message in the network, with multiplicity
    pub fn all(&self) -> Vec<(usize, usize, u8)> {
        match self {
            RNet::Ordered(f) => f.iter().flat_map(|((s, d), q)| q.iter().map(move |m| (*s, *d, *m))).collect(),
            RNet::NonDup(c) => c.iter().flat_map(|(e, n)| std::iter::repeat(*e).take(*n)).collect(),
            RNet::Dup(l, _) => l.iter().cloned().collect(),
        }
    }
    pub fn remove_one(&mut self, s: usize, d: usize, m: u8) {
        match self {
            RNet::Ordered(f) => {
                let q = f.get_mut(&(s, d)).expect("ref: flow exists");
                assert_eq!(q[0], m, "ref: only the head of a flow can be consumed");
                q.pop_front();
                if q.is_empty() {
                    f.remove(&(s, d));
                }
            }
            RNet::NonDup(c) => {
                let n = c.get_mut(&(s, d, m)).expect("ref: envelope exists");
                *n -= 1;
                if *n == 0 {
                    c.remove(&(s, d, m));
                }
            }
            RNet::Dup(l, _) => {
                l.remove(&(s, d, m));
            }
        }
    }
    pub fn delivered(&mut self, s: usize, d: usize, m: u8) {
        match self {
            RNet::Dup(_, last) => *last = Some((s, d, m)),
            _ => self.remove_one(s, d, m),
        }
    }
    pub fn len(&self) -> usize {
        match self {
            RNet::Ordered(f) => f.values().map(|q| q.len()).sum(),
            RNet::NonDup(c) => c.values().sum(),
            RNet::Dup(l, _) => l.len(),
        }
    }
}

impl SysDesc {
    fn apply(&self, st: &mut RState, i: usize, cmds: &[Cmd]) {
        for c in cmds {
            match c {
                Cmd::Send(d, m) => {
                    if self.hist.out_mod != 0 && *m % self.hist.out_mod != 0 && st.history.len() < self.hist.cap {
                        st.history.push((false, i, *d, *m));
                    }
                    st.net.send(i, *d, *m);
                }
                Cmd::SetTimer(t) => {
                    st.timers[i].insert(*t);
                }
                Cmd::CancelTimer(t) => {
                    st.timers[i].remove(t);
                }
                Cmd::Choose(k, v) => {
                    if v.is_empty() {
                        st.choices[i].remove(&key_name(*k));
                    } else {
                        st.choices[i].insert(key_name(*k), v.clone());
                    }
                }
                Cmd::Remove(k) => {
                    st.choices[i].remove(&key_name(*k));
                }
            }
        }
    }
    pub fn ref_init(&self) -> RState {
        let n = self.n();
        let mut net = RNet::new(self.net);
        for (s, d, m) in &self.init_env {
            net.send(*s, *d, *m);
        }
        let mut st = RState {
            actors: vec![],
            timers: vec![Default::default(); n],
            choices: vec![Default::default(); n],
            crashed: vec![false; n],
            history: vec![],
            net,
        };
        for i in 0..n {
            st.actors.push(self.actors[i].start.0);
            let c = self.actors[i].start.1.clone();
            self.apply(&mut st, i, &c);
        }
        st
    }
    pub fn ref_actions(&self, st: &RState) -> Vec<RAct> {
        let mut a = vec![];
        for (s, d, m) in st.net.deliverable() {
            if self.lossy {
                a.push(RAct::Drop(s, d, m));
            }
            if d < self.n() {
                a.push(RAct::Deliver(s, d, m));
            }
        }
        for i in 0..self.n() {
            for t in &st.timers[i] {
                a.push(RAct::Timeout(i, *t));
            }
        }
        if st.crashed.iter().filter(|c| **c).count() < self.max_crashes {
            for i in 0..self.n() {
                if !st.crashed[i] {
                    a.push(RAct::Crash(i));
                }
            }
        }
        for i in 0..self.n() {
            for (k, v) in &st.choices[i] {
                for c in v {
                    a.push(RAct::Select(i, k.clone(), *c));
                }
            }
        }
        a
    }
    pub fn ref_next(&self, st: &RState, a: &RAct) -> Option<RState> {
        let mut n = st.clone();
        match a {
            RAct::Drop(s, d, m) => {
                n.net.remove_one(*s, *d, *m);
                Some(n)
            }
            RAct::Deliver(s, d, m) => {
                if *d >= self.n() || st.crashed[*d] {
                    return None;
                }
                let r = self.actors[*d].on_msg(st.actors[*d], *m);
                let noop = r.map_or(true, |r| r.new_state.is_none() && r.cmds.is_empty());
                if noop && self.net != NetKind::Ordered {
                    return None;
                }
                if self.hist.in_mod != 0 && *m % self.hist.in_mod == 0 && st.history.len() < self.hist.cap {
                    n.history.push((true, *s, *d, *m));
                }
                n.net.delivered(*s, *d, *m);
                if let Some(r) = r {
                    if let Some(ns) = r.new_state {
                        n.actors[*d] = ns;
                    }
                    self.apply(&mut n, *d, &r.cmds);
                }
                Some(n)
            }
            RAct::Timeout(i, t) => {
                let r = self.actors[*i].on_timeout(st.actors[*i], *t);
                if let Some(r) = r {
                    if r.new_state.is_none() && r.cmds.len() == 1 && matches!(&r.cmds[0], Cmd::SetTimer(x) if x == t) {
                        return None;
                    }
                }
                n.timers[*i].remove(t);
                if let Some(r) = r {
                    if let Some(ns) = r.new_state {
                        n.actors[*i] = ns;
                    }
                    self.apply(&mut n, *i, &r.cmds);
                }
                Some(n)
            }
            RAct::Crash(i) => {
                n.crashed[*i] = true;
                n.timers[*i].clear();
                n.choices[*i].clear();
                Some(n)
            }
            RAct::Select(i, k, c) => {
                let r = self.actors[*i].on_random(st.actors[*i], *c);
                n.choices[*i].remove(k);
                if let Some(r) = r {
                    if let Some(ns) = r.new_state {
                        n.actors[*i] = ns;
                    }
                    self.apply(&mut n, *i, &r.cmds);
                }
                Some(n)
            }
        }
    }
}

// ------------------------------------------------------------------------------------------
// Conversion real -> reference representation (field by field, public fields only; the network
// is read through its public variants, not through its iterators)
// ------------------------------------------------------------------------------------------

pub fn conv_net<M: MsgCodec>(net: &Network<M>) -> RNet {
    let e = |x: &Envelope<M>| (usize::from(x.src), usize::from(x.dst), x.msg.to_u8());
    match net {
        Network::Ordered(m) => RNet::Ordered(m.iter().map(|((a, b), q)| ((usize::from(*a), usize::from(*b)), q.iter().map(|x| x.to_u8()).collect())).collect()),
        Network::UnorderedNonDuplicating(m) => RNet::NonDup(m.iter().map(|(k, v)| (e(k), *v)).collect()),
        Network::UnorderedDuplicating(set, last) => RNet::Dup(set.iter().map(e).collect(), last.as_ref().map(e)),
    }
}

pub fn conv_state<M: MsgCodec, A>(s: &ActorModelState<A, Hist>, unwrap: &dyn Fn(&A::State) -> u8) -> RState
where
    A: Actor<Msg = M, Timer = u8, Random = u8>,
{
    RState {
        actors: s.actor_states.iter().map(|a| unwrap(&**a)).collect(),
        timers: s.timers_set.iter().map(|t| t.iter().cloned().collect()).collect(),
        choices: s.random_choices.iter().map(|c| c.map.iter().map(|(k, v)| (k.clone(), v.clone())).collect()).collect(),
        crashed: s.crashed.clone(),
        history: s.history.clone(),
        net: conv_net(&s.network),
    }
}

pub fn conv_act<M: MsgCodec>(a: &ActorModelAction<M, u8, u8>) -> RAct {
    match a {
        ActorModelAction::Deliver { src, dst, msg } => RAct::Deliver((*src).into(), (*dst).into(), msg.to_u8()),
        ActorModelAction::Drop(e) => RAct::Drop(e.src.into(), e.dst.into(), e.msg.to_u8()),
        ActorModelAction::Timeout(i, t) => RAct::Timeout((*i).into(), *t),
        ActorModelAction::Crash(i) => RAct::Crash((*i).into()),
        ActorModelAction::SelectRandom { actor, key, random } => RAct::Select((*actor).into(), key.clone(), *random),
    }
}

pub fn act_kind(a: &RAct) -> &'static str {
    match a {
        RAct::Deliver(..) => "deliver",
        RAct::Drop(..) => "drop",
        RAct::Timeout(..) => "timeout",
        RAct::Crash(..) => "crash",
        RAct::Select(..) => "select_random",
    }
}

/// Names the first component in which two reference-form states differ.
pub fn diff_component(a: &RState, b: &RState) -> &'static str {
    if a.actors != b.actors {
        "actor_states"
    } else if a.net != b.net {
        "network"
    } else if a.timers != b.timers {
        "timers"
    } else if a.choices != b.choices {
        "random_choices"
    } else if a.crashed != b.crashed {
        "crashed"
    } else if a.history != b.history {
        "history"
    } else {
        "none"
    }
}

// ------------------------------------------------------------------------------------------
// Differential driver
// ------------------------------------------------------------------------------------------

pub trait Observer {
    fn state(&mut self, _real: &RealState, _r: &RState) {}
    fn transition(&mut self, _from: &RState, _a: &RAct, _to: Option<&RState>) {}
}
pub struct NoObserver;
impl Observer for NoObserver {}

pub struct Explored {
    /// hasher call sequence and fingerprint of each visited *real* state (same order as `states`)
    pub identities: Vec<(Vec<u8>, u64)>,
    pub states: Vec<RState>,
    pub transitions: u64,
    pub capped: bool,
}

/// Bounded BFS over the *real* model next to the reference; states are identified by their
/// structural (reference-form) value, so identity defects of the real state cannot hide states.
pub fn explore_diff<M: MsgCodec, A>(
    model: &ActorModel<A, HistCfg, Hist>,
    sys: &SysDesc,
    unwrap: &dyn Fn(&A::State) -> u8,
    cap: usize,
    obs: &mut dyn Observer,
) -> Result<Explored, Fail>
where
    A: Actor<Msg = M, Timer = u8, Random = u8>,
{
    let inits = model.init_states();
    if inits.len() != 1 {
        return Err(Fail::new("refsys/init-count", format!("init_states() returned {} states", inits.len())));
    }
    let r0 = sys.ref_init();
    let c0 = conv_state(&inits[0], unwrap);
    if c0 != r0 {
        return Err(Fail::new(
            format!("refsys/init/{}-differs", diff_component(&c0, &r0)),
            format!("initial state differs in {}:\n real {:?}\n ref  {:?}", diff_component(&c0, &r0), c0, r0),
        ));
    }
    if r0.net.len() > sys.hist.net_bound {
        // the initial state is outside the boundary: the bounded space is empty
        return Ok(Explored { identities: vec![], states: vec![], transitions: 0, capped: false });
    }
    let mut seen: HashSet<RState> = HashSet::new();
    let mut order = vec![];
    let mut queue: VecDeque<(ActorModelState<A, Hist>, RState)> = VecDeque::new();
    seen.insert(r0.clone());
    queue.push_back((inits.into_iter().next().unwrap(), r0));
    let mut transitions = 0u64;
    let mut capped = false;
    let mut identities = vec![];
    while let Some((real, r)) = queue.pop_front() {
        // len / iter_all / iter_deliverable on the network *as next_state left it* (not on a
        // rebuilt copy: a copy would hide anything that depends on the in-memory representation,
        // e.g. a ring buffer that has wrapped around)
        real_network_api(&real.network, &r.net)?;
        order.push(r.clone());
        identities.push((crate::rechash::stream(&real), stateright::verif_hooks::fingerprint_of(&real)));
        // enabled actions as multisets
        let mut acts = Vec::new();
        model.actions(&real, &mut acts);
        let mut got: Vec<RAct> = acts.iter().map(conv_act::<M>).collect();
        let mut want = sys.ref_actions(&r);
        got.sort();
        want.sort();
        if got != want {
            let missing: Vec<_> = want.iter().filter(|a| !got.contains(a)).collect();
            let extra: Vec<_> = got.iter().filter(|a| !want.contains(a)).collect();
            let kind = missing.first().or(extra.first()).map(|a| act_kind(a)).unwrap_or("multiplicity");
            return Err(Fail::new(
                format!("refsys/enabled-actions-differ/{}", kind),
                format!("in state {:?}\n actions() = {:?}\n reference = {:?}\n missing {:?} extra {:?}", r, got, want, missing, extra),
            ));
        }
        for a in acts {
            let ra = conv_act::<M>(&a);
            let real_next = model.next_state(&real, a);
            let ref_next = sys.ref_next(&r, &ra);
            transitions += 1;
            match (&real_next, &ref_next) {
                (None, None) => {}
                (Some(x), None) => {
                    return Err(Fail::new(
                        format!("refsys/{}/transition-where-none-expected", act_kind(&ra)),
                        format!("state {:?} action {:?}: next_state = {:?}, reference says no transition", r, ra, conv_state(x, unwrap)),
                    ))
                }
                (None, Some(y)) => {
                    return Err(Fail::new(
                        format!("refsys/{}/no-transition-where-one-expected", act_kind(&ra)),
                        format!("state {:?} action {:?}: next_state = None, reference says {:?}", r, ra, y),
                    ))
                }
                (Some(x), Some(y)) => {
                    let cx = conv_state(x, unwrap);
                    if &cx != y {
                        return Err(Fail::new(
                            format!("refsys/{}/successor-{}-differs", act_kind(&ra), diff_component(&cx, y)),
                            format!("state {:?}\n action {:?}\n real successor {:?}\n reference      {:?}", r, ra, cx, y),
                        ));
                    }
                }
            }
            obs.transition(&r, &ra, ref_next.as_ref());
            if let (Some(x), Some(y)) = (real_next, ref_next) {
                if y.net.len() <= sys.hist.net_bound && !seen.contains(&y) {
                    if seen.len() >= cap {
                        capped = true;
                    } else {
                        seen.insert(y.clone());
                        queue.push_back((x, y));
                    }
                }
            }
        }
        obs.state(&real_as_tactor_dummy(&real), &r);
    }
    Ok(Explored { identities, states: order, transitions, capped })
}

// The observer only needs the network of the real state; pass a TActor-typed shell carrying it.
fn real_as_tactor_dummy<M: MsgCodec, A>(s: &ActorModelState<A, Hist>) -> RealState
where
    A: Actor<Msg = M, Timer = u8, Random = u8>,
{
    let as_u8 = |e: &Envelope<M>| Envelope { src: e.src, dst: e.dst, msg: e.msg.to_u8() };
    let network: Network<u8> = match &s.network {
        Network::Ordered(m) => Network::Ordered(m.iter().map(|(k, q)| (*k, q.iter().map(|x| x.to_u8()).collect())).collect()),
        Network::UnorderedNonDuplicating(m) => {
            let mut out = Network::new_unordered_nonduplicating([]);
            if let Network::UnorderedNonDuplicating(o) = &mut out {
                for (e, k) in m.iter() {
                    o.insert(as_u8(e), *k);
                }
            }
            out
        }
        Network::UnorderedDuplicating(set, last) => Network::new_unordered_duplicating_with_last_msg(set.iter().map(as_u8), last.as_ref().map(as_u8)),
    };
    ActorModelState {
        actor_states: vec![],
        network,
        timers_set: s.timers_set.clone(),
        random_choices: s.random_choices.clone(),
        crashed: s.crashed.clone(),
        history: s.history.clone(),
    }
}


// ------------------------------------------------------------------------------------------
// Generators
// ------------------------------------------------------------------------------------------

#[derive(Clone, Debug)]
pub struct SysParams {
    pub max_actors: usize,
    pub nets: Vec<NetKind>,
    pub max_cmds: usize,
    /// weight of each command kind: send, set, cancel, choose, remove
    pub w: [u32; 5],
    pub crashes: bool,
    pub max_init_env: usize,
    /// probability/256 that a table entry exists
    pub density: u8,
}
impl SysParams {
    pub fn general() -> SysParams {
        SysParams {
            max_actors: 3,
            nets: vec![NetKind::Ordered, NetKind::NonDup, NetKind::Dup],
            max_cmds: 3,
            w: [4, 2, 1, 1, 1],
            crashes: true,
            max_init_env: 2,
            density: 170,
        }
    }
}

pub fn cmd_strategy(n_targets: usize, w: [u32; 5]) -> BoxedStrategy<Cmd> {
    prop_oneof![
        w[0] => (0..=n_targets, 0..NM).prop_map(|(d, m)| Cmd::Send(d, m)),
        w[1] => (0..NT).prop_map(Cmd::SetTimer),
        w[2] => (0..NT).prop_map(Cmd::CancelTimer),
        w[3] => (0..NK, proptest::collection::vec(0..NR, 1..=2)).prop_map(|(k, v)| Cmd::Choose(k, v)),
        w[4] => (0..NK).prop_map(Cmd::Remove),
    ]
    .boxed()
}

pub fn reaction_strategy(n: usize, p: &SysParams) -> BoxedStrategy<Reaction> {
    (proptest::option::weighted(0.55, 0..NS), proptest::collection::vec(cmd_strategy(n, p.w), 0..=p.max_cmds))
        .prop_map(|(new_state, cmds)| Reaction { new_state, cmds })
        .boxed()
}

fn table_strategy(rows: u8, cols: u8, n: usize, p: &SysParams, renew_col_as_timer: bool) -> BoxedStrategy<Vec<Vec<Option<Reaction>>>> {
    let density = p.density;
    let cell = (any::<u8>(), reaction_strategy(n, p));
    proptest::collection::vec(proptest::collection::vec(cell, cols as usize), rows as usize)
        .prop_map(move |rows| {
            rows.into_iter()
                .map(|row| {
                    row.into_iter()
                        .enumerate()
                        .map(|(col, (dice, r))| {
                            if renew_col_as_timer && dice % 5 == 0 {
                                // "renew the same timer only" entry: the no-op-with-timer path
                                Some(Reaction { new_state: None, cmds: vec![Cmd::SetTimer(col as u8)] })
                            } else if dice < density {
                                // never generate "touched but equal" (see DESIGN 3.3): a reaction that
                                // names the current state as new state is normalised by the caller
                                Some(r)
                            } else {
                                None
                            }
                        })
                        .collect()
                })
                .collect()
        })
        .boxed()
}

pub fn tables_strategy(n: usize, p: &SysParams) -> BoxedStrategy<Tables> {
    (
        (0..NS, proptest::collection::vec(cmd_strategy(n, p.w), 0..=p.max_cmds)),
        table_strategy(NS, NM, n, p, false),
        table_strategy(NS, NT, n, p, true),
        table_strategy(NS, NR, n, p, false),
    )
        .prop_map(|(start, msg, timeout, random)| normalise(Tables { start, msg, timeout, random }))
        .boxed()
}

/// A reaction whose `new_state` equals the current state would touch the state without changing
/// it ("to_mut without a change"); `is_no_op` is defined on ownership while the property speaks of
/// "changes nothing", so that corner is deliberately not generated: such entries keep the state.
pub fn normalise(mut t: Tables) -> Tables {
    for tab in [&mut t.msg, &mut t.timeout, &mut t.random] {
        for (st, row) in tab.iter_mut().enumerate() {
            for cell in row.iter_mut().flatten() {
                if cell.new_state == Some(st as u8) {
                    cell.new_state = None;
                }
            }
        }
    }
    t
}

pub fn sys_strategy(p: SysParams) -> BoxedStrategy<SysDesc> {
    let nets = p.nets.clone();
    (1..=p.max_actors)
        .prop_flat_map(move |n| {
            let p = p.clone();
            let nets = nets.clone();
            (
                proptest::collection::vec(tables_strategy(n, &p), n),
                (0..nets.len()).prop_map(move |i| nets[i]),
                any::<bool>(),
                if p.crashes { (0..=n).boxed() } else { Just(0usize).boxed() },
                proptest::collection::vec((0..n, 0..=n, 0..NM), 0..=p.max_init_env),
                (0u8..4, 0u8..4, 2usize..6),
            )
        })
        .prop_map(|(actors, net, lossy, max_crashes, init_env, (in_mod, out_mod, cap))| SysDesc {
            actors,
            net,
            lossy,
            max_crashes,
            init_env,
            hist: HistCfg { in_mod, out_mod, cap, net_bound: 4 },
        })
        .boxed()
}

/// Label helper: classifies a transition for coverage classes (C06).
pub fn classify_transition(sys: &SysDesc, from: &RState, a: &RAct, to: Option<&RState>) -> Vec<&'static str> {
    let mut l = vec![];
    let reaction = match a {
        RAct::Deliver(_, d, m) if *d < sys.n() => sys.actors[*d].on_msg(from.actors[*d], *m),
        RAct::Timeout(i, t) => sys.actors[*i].on_timeout(from.actors[*i], *t),
        RAct::Select(i, _, c) => sys.actors[*i].on_random(from.actors[*i], *c),
        _ => None,
    };
    let actor = match a {
        RAct::Deliver(_, d, _) => Some(*d),
        RAct::Timeout(i, _) | RAct::Select(i, _, _) | RAct::Crash(i) => Some(*i),
        _ => None,
    };
    match (a, to) {
        (RAct::Deliver(..), None) => l.push(match sys.net {
            NetKind::Ordered => "deliver_none_ordered",
            NetKind::NonDup => "noop_delivery_nondup",
            NetKind::Dup => "noop_delivery_dup",
        }),
        (RAct::Deliver(..), Some(_)) if reaction.map_or(true, |r| r.new_state.is_none() && r.cmds.is_empty()) => l.push("noop_delivery_consumed_ordered"),
        (RAct::Timeout(..), None) => l.push("renew_only_timeout"),
        _ => {}
    }
    if let (Some(r), Some(_)) = (reaction, to) {
        let kinds: BTreeSet<u8> = r
            .cmds
            .iter()
            .map(|c| match c {
                Cmd::Send(..) => 0,
                Cmd::SetTimer(_) => 1,
                Cmd::CancelTimer(_) => 2,
                Cmd::Choose(..) => 3,
                Cmd::Remove(_) => 4,
            })
            .collect();
        if r.cmds.len() >= 2 && kinds.len() >= 2 {
            l.push("multi_command_multi_kind");
        }
        let i = actor.unwrap();
        for c in &r.cmds {
            match c {
                Cmd::CancelTimer(t) if from.timers[i].contains(t) => l.push("cancel_set_timer"),
                Cmd::Remove(k) if from.choices[i].contains_key(&key_name(*k)) => l.push("remove_pending_random"),
                Cmd::Choose(k, _) if from.choices[i].contains_key(&key_name(*k)) => l.push("overwrite_pending_random"),
                Cmd::Send(d, _) if *d >= sys.n() => l.push("send_to_nonexistent"),
                _ => {}
            }
        }
        let sends: Vec<_> = r.cmds.iter().filter(|c| matches!(c, Cmd::Send(..))).collect();
        if sends.len() >= 2 {
            l.push("several_sends");
        }
    }
    if let Some(to) = to {
        if to.history.len() > from.history.len() {
            let new = &to.history[from.history.len()..];
            if new.iter().any(|h| h.0) {
                l.push("history_in");
            }
            if new.iter().any(|h| !h.0) {
                l.push("history_out");
            }
            if new.len() >= 2 {
                l.push("history_in_then_out");
            }
        }
    }
    let _ = HashMap::<u8, u8>::new();
    l
}

pub fn idx8_(raw: u8, len: usize) -> usize {
    idx8(raw, len)
}

/// `len`, `iter_all` and `iter_deliverable` of the real network against the reference contents.
pub fn real_network_api<M: MsgCodec>(net: &Network<M>, want: &RNet) -> Result<(), Fail> {
    let cap = want.len() + 2;
    if net.len() != want.len() {
        return Err(Fail::new("refsys/network-api/len-wrong", format!("len()={} but the network holds {} message(s): {:?}", net.len(), want.len(), want)));
    }
    let e = |x: Envelope<&M>| (usize::from(x.src), usize::from(x.dst), x.msg.to_u8());
    let mut all: Vec<_> = net.iter_all().take(cap + 1).map(e).collect();
    if all.len() > cap {
        return Err(Fail::new("refsys/network-api/iter_all-does-not-terminate", format!("iter_all() yielded more than {} items for {:?}", cap, want)));
    }
    let mut want_all = want.all();
    all.sort();
    want_all.sort();
    if all != want_all {
        return Err(Fail::new("refsys/network-api/iter_all-wrong", format!("iter_all() yields {:?}, the network holds {:?}", all, want_all)));
    }
    let mut del: Vec<_> = net.iter_deliverable().take(cap + 1).map(e).collect();
    let mut want_del = want.deliverable();
    del.sort();
    want_del.sort();
    if del != want_del {
        return Err(Fail::new("refsys/network-api/iter_deliverable-wrong", format!("iter_deliverable() yields {:?}, deliverable are {:?}", del, want_del)));
    }
    Ok(())
}
