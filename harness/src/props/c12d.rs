//! C12 (d) — timeouts: bounded stop after expiry for every strategy and thread count; an
//! unexpired timeout changes neither results nor progress. Runs in child processes with a hard
//! kill (timing policy, DESIGN.md 2.5).

use crate::engine::*;
use crate::{ensure, fail};
use proptest::prelude::*;
use serde::{Deserialize, Serialize};
use serde_json::{json, Value};
use stateright::{Checker, Model, Property, UniformChooser};
use std::io::Read;
use std::process::{Command, Stdio};
use std::time::{Duration, Instant};

/// `s -> 3s + a` on u64 (wrapping): effectively unbounded, no cycles within any realistic run.
#[derive(Clone)]
pub struct Unbounded {
    /// microseconds of busy work per `next_state` (keeps memory growth of a run-away check modest)
    pub work_us: u64,
}
impl Model for Unbounded {
    type State = u64;
    type Action = u8;
    fn init_states(&self) -> Vec<u64> {
        vec![1]
    }
    fn actions(&self, _: &u64, a: &mut Vec<u8>) {
        a.extend([0u8, 1, 2]);
    }
    fn next_state(&self, s: &u64, a: u8) -> Option<u64> {
        let t0 = Instant::now();
        while t0.elapsed() < Duration::from_micros(self.work_us) {
            std::hint::spin_loop();
        }
        Some(s.wrapping_mul(3).wrapping_add(a as u64 + 1))
    }
    fn properties(&self) -> Vec<Property<Self>> {
        vec![Property::always("true", |_, _| true), Property::sometimes("never", |_, s| *s == 0)]
    }
}

/// `s -> s + 1`: an endless chain. The frontier is one state wide, so with several threads all
/// workers but one are idle (waiting in the job market) when the timeout expires.
#[derive(Clone)]
pub struct Chain {
    pub work_us: u64,
}
impl Model for Chain {
    type State = u64;
    type Action = u8;
    fn init_states(&self) -> Vec<u64> {
        vec![1]
    }
    fn actions(&self, _: &u64, a: &mut Vec<u8>) {
        a.push(0);
    }
    fn next_state(&self, s: &u64, _: u8) -> Option<u64> {
        let t0 = Instant::now();
        while t0.elapsed() < Duration::from_micros(self.work_us) {
            std::hint::spin_loop();
        }
        Some(s + 1)
    }
    fn properties(&self) -> Vec<Property<Self>> {
        vec![Property::always("true", |_, _| true), Property::sometimes("never", |_, s| *s == 0)]
    }
}

/// A finite model with `n` states (a grid-like graph).
#[derive(Clone)]
pub struct Finite {
    pub n: u64,
}
impl Model for Finite {
    type State = u64;
    type Action = u8;
    fn init_states(&self) -> Vec<u64> {
        vec![0]
    }
    fn actions(&self, _: &u64, a: &mut Vec<u8>) {
        a.extend([0u8, 1]);
    }
    fn next_state(&self, s: &u64, a: u8) -> Option<u64> {
        let t = if a == 0 { s + 1 } else { s * 2 + 1 };
        if t < self.n {
            Some(t)
        } else {
            None
        }
    }
    fn properties(&self) -> Vec<Property<Self>> {
        vec![Property::always("true", |_, _| true), Property::sometimes("deep", |m, s| *s == m.n - 1), Property::always("small", |m, s| *s < m.n / 2 + 7)]
    }
}

fn run<M: Model<State = u64> + Clone + Send + Sync + 'static>(m: M, strat: &str, threads: usize, timeout_ms: Option<u64>, target: Option<usize>) -> Value
where
    M::Action: Send + Sync + std::fmt::Debug + Clone + PartialEq,
{
    let mut b = m.checker().threads(threads);
    if let Some(t) = timeout_ms {
        b = b.timeout(Duration::from_millis(t));
    }
    if let Some(t) = target {
        b = b.target_state_count(t);
    }
    let t0 = Instant::now();
    fn fin<M: Model, C: Checker<M>>(c: C, t0: Instant) -> Value {
        let c = c.join();
        let elapsed = t0.elapsed();
        let mut names: Vec<&str> = c.discoveries().keys().copied().collect();
        names.sort();
        json!({"elapsed_ms": elapsed.as_millis() as u64, "unique": c.unique_state_count(), "state_count": c.state_count(), "discoveries": names})
    }
    match strat {
        "bfs" => fin(b.spawn_bfs(), t0),
        "dfs" => fin(b.spawn_dfs(), t0),
        "on_demand" => {
            let c = b.spawn_on_demand();
            c.run_to_completion();
            fin(c, t0)
        }
        _ => fin(b.spawn_simulation(7, UniformChooser), t0),
    }
}

/// Child entry point: `srv C12 child <kind> <strat> <threads> <timeout_ms|none>`; prints one JSON line.
pub fn child(args: &[String]) -> i32 {
    let kind = args.first().map(|s| s.as_str()).unwrap_or("");
    let strat = args.get(1).map(|s| s.as_str()).unwrap_or("bfs");
    let threads: usize = args.get(2).and_then(|s| s.parse().ok()).unwrap_or(1);
    let timeout_ms: Option<u64> = args.get(3).and_then(|s| s.parse().ok());
    let v = match kind {
        "unbounded" => run(Unbounded { work_us: 20 }, strat, threads, timeout_ms, None),
        "chain" => run(Chain { work_us: 20 }, strat, threads, timeout_ms, None),
        // simulation never exhausts: bound it by a target instead
        "finite" => run(Finite { n: 5000 }, strat, threads, timeout_ms, if strat == "simulation" { Some(20000) } else { None }),
        _ => return 2,
    };
    println!("RESULT {}", v);
    0
}

pub enum ChildOutcome {
    Done(Value, Duration),
    Killed(Duration),
    Broken(String),
}

pub fn spawn_child(args: &[&str], kill_after: Duration) -> ChildOutcome {
    let exe = match std::env::current_exe() {
        Ok(e) => e,
        Err(e) => return ChildOutcome::Broken(e.to_string()),
    };
    let t0 = Instant::now();
    let mut ch = match Command::new(exe).arg("C12").arg("child").args(args).stdout(Stdio::piped()).stderr(Stdio::null()).spawn() {
        Ok(c) => c,
        Err(e) => return ChildOutcome::Broken(e.to_string()),
    };
    loop {
        match ch.try_wait() {
            Ok(Some(_)) => {
                let mut out = String::new();
                if let Some(mut so) = ch.stdout.take() {
                    let _ = so.read_to_string(&mut out);
                }
                let line = out.lines().find(|l| l.starts_with("RESULT ")).map(|l| l[7..].to_string());
                return match line.and_then(|l| serde_json::from_str(&l).ok()) {
                    Some(v) => ChildOutcome::Done(v, t0.elapsed()),
                    None => ChildOutcome::Broken(format!("child printed no result: {:?}", out)),
                };
            }
            Ok(None) => {
                if t0.elapsed() > kill_after {
                    let _ = ch.kill();
                    let _ = ch.wait();
                    return ChildOutcome::Killed(t0.elapsed());
                }
                std::thread::sleep(Duration::from_millis(5));
            }
            Err(e) => return ChildOutcome::Broken(e.to_string()),
        }
    }
}

#[derive(Clone, Debug, Serialize, Deserialize, PartialEq, Eq, Hash)]
pub struct TimeoutCase {
    pub strat: String,
    pub threads: usize,
    /// true: bounded stop on the unbounded model; false: no effect while unexpired on the finite model
    pub expiring: bool,
    pub timeout_ms: u64,
    /// the timeout configured in the "unexpired" scenario (far longer than the run needs)
    #[serde(default = "far_away")]
    pub unexpired_ms: u64,
    /// expiring scenario on the endless chain (idle workers at expiry) instead of the bushy model
    #[serde(default)]
    pub chain: bool,
}
fn far_away() -> u64 {
    600_000
}

/// correct code notices an expired timeout within about a second (the poll period of the
/// timeout thread); the margin is >= 5x that
pub const STOP_MARGIN_MS: u64 = 8000;

pub struct Timeouts;
impl SubCheck for Timeouts {
    type Case = TimeoutCase;
    fn name(&self) -> &'static str {
        "timeouts_in_child_processes"
    }
    fn cases(&self, tier: Tier) -> u32 {
        tier.pick(5, 20)
    }
    fn workers(&self) -> usize {
        // children use up to 4 threads each
        4
    }
    fn max_shrink_iters(&self) -> u32 {
        0
    }
    fn strategy(&self, _tier: Tier) -> BoxedStrategy<TimeoutCase> {
        (prop_oneof![Just("bfs"), Just("dfs"), Just("on_demand"), Just("simulation")], prop_oneof![Just(1usize), Just(2usize), Just(4usize)], any::<bool>(), prop_oneof![3 => 150u64..450, 1 => 1050u64..2300], prop_oneof![Just(600_000u64), Just(30_000u64), Just(2_500u64), Just(950u64)], proptest::bool::weighted(0.4))
            .prop_map(|(s, threads, expiring, timeout_ms, unexpired_ms, chain)| TimeoutCase { strat: s.to_string(), threads, expiring, timeout_ms, unexpired_ms, chain })
            .boxed()
    }
    fn check(&self, b: &TimeoutCase, cov: &mut Cov) -> Result<(), Fail> {
        // One generated case is a *bundle* of three scenarios, so that every mandatory class is
        // covered by construction (with 14 independent draws "expiring with one thread" was
        // missing from 8 % of the runs): expiring with one thread on the bushy model, expiring
        // with the generated thread count on the generated model, unexpired on the finite model.
        let single = TimeoutCase { threads: 1, expiring: true, chain: false, ..b.clone() };
        let multi = TimeoutCase { expiring: true, ..b.clone() };
        let unexpired = TimeoutCase { expiring: false, chain: false, ..b.clone() };
        check_one(&single, cov)?;
        if multi != single {
            check_one(&multi, cov)?;
        }
        check_one(&unexpired, cov)
    }
    fn mandatory(&self) -> Vec<&'static str> {
        vec!["expiring_timeout", "unexpired_timeout", "expiring/single_thread"]
    }
}

/// One timeout scenario (see `TimeoutCase`).
pub fn check_one(c: &TimeoutCase, cov: &mut Cov) -> Result<(), Fail> {
    {
        let th = c.threads.to_string();
        cov.eval();
        if c.expiring {
            let to = c.timeout_ms.to_string();
            let limit = Duration::from_millis(c.timeout_ms + STOP_MARGIN_MS);
            // "did not stop within expiry + margin" is the property itself: repeated 3x in fresh
            // processes and reported only if all agree
            let mut late = vec![];
            for _ in 0..3 {
                match spawn_child(&[if c.chain { "chain" } else { "unbounded" }, &c.strat, &th, &to], limit) {
                    ChildOutcome::Done(v, _) => {
                        let e = v["elapsed_ms"].as_u64().unwrap_or(0);
                        ensure!(e >= c.timeout_ms.saturating_sub(50) || v["unique"].as_u64().unwrap_or(0) == 0, "c12/timeout/stopped-before-expiry", "{} with {} thread(s) and a {} ms timeout on an unbounded model returned after {} ms", c.strat, c.threads, c.timeout_ms, e);
                        late.clear();
                        break;
                    }
                    ChildOutcome::Killed(d) => late.push(d.as_millis()),
                    ChildOutcome::Broken(e) => fail!("inconclusive/child-process", "{}", e),
                }
            }
            ensure!(late.len() < 3, format!("c12/timeout/not-stopped-after-expiry/{}{}", c.strat, if c.threads == 1 { "/single-thread" } else { "" }), "{} with {} thread(s): a {} ms timeout did not stop the check of an unbounded {} model within {} ms after expiry (3 fresh processes, killed after {:?} ms)", c.strat, c.threads, c.timeout_ms, if c.chain { "chain-shaped (idle workers)" } else { "bushy" }, STOP_MARGIN_MS, late);
            cov.label("expiring_timeout");
            cov.label(&format!("expiring/{}", c.strat));
            cov.label_if(c.threads == 1, "expiring/single_thread");
            cov.label_if(c.chain && c.threads > 1, "expiring/idle_workers_at_expiry");
            cov.nontrivial(c);
        } else {
            // finite model with and without a (far away) timeout: same results, comparable time
            let mut with = vec![];
            let mut without = vec![];
            let mut results: Vec<(Value, Value)> = vec![];
            for _ in 0..3 {
                let a = spawn_child(&["finite", &c.strat, &th, "none"], Duration::from_secs(120));
                let b = spawn_child(&["finite", &c.strat, &th, &c.unexpired_ms.to_string()], Duration::from_secs(120));
                match (a, b) {
                    (ChildOutcome::Done(va, _), ChildOutcome::Done(vb, _)) => {
                        without.push(va["elapsed_ms"].as_u64().unwrap_or(0));
                        with.push(vb["elapsed_ms"].as_u64().unwrap_or(0));
                        results.push((va, vb));
                    }
                    (ChildOutcome::Broken(e), _) | (_, ChildOutcome::Broken(e)) => fail!("inconclusive/child-process", "{}", e),
                    _ => fail!(format!("c12/timeout/unexpired-timeout-blocks-progress/{}", c.strat), "{} with {} thread(s) on a 5000-state model did not finish within 120 s with or without a 600 s timeout", c.strat, c.threads),
                }
            }
            // the comparison is only meaningful for runs that really ended before the timeout
            // expired (a slow machine can make a 5000-state check outlast a 950 ms timeout)
            results.retain(|(_, vb)| vb["elapsed_ms"].as_u64().unwrap_or(u64::MAX) + 300 < c.unexpired_ms);
            if results.is_empty() {
                cov.label("unexpired/run_outlasted_the_timeout_skipped");
                return Ok(());
            }
            cov.label_if(c.unexpired_ms < 5_000, "unexpired/timeout_within_seconds_of_the_run");
            let (va, vb) = &results[0];
            if c.strat != "simulation" {
                ensure!(va["unique"] == vb["unique"] && va["discoveries"] == vb["discoveries"], "c12/timeout/unexpired-timeout-changes-results", "{} x{}: without timeout {} / with a {} ms timeout (run ended well before it) {}", c.strat, c.threads, va, c.unexpired_ms, vb);
                if c.threads == 1 {
                    ensure!(va["state_count"] == vb["state_count"], "c12/timeout/unexpired-timeout-changes-results", "state_count differs: {} vs {}", va, vb);
                }
            }
            if c.strat == "simulation" {
                // the only stop reason left is the target of 20000 generated states
                ensure!(vb["state_count"].as_u64().unwrap_or(0) >= 20000, "c12/timeout/unexpired-timeout-changes-results", "simulation x{} with a {} ms timeout ended after {} ms with {} although its target is 20000 states and not every property has a discovery", c.threads, c.unexpired_ms, vb["elapsed_ms"], vb);
            }
            with.sort();
            without.sort();
            let (mw, mo) = (with[1], without[1]);
            ensure!(c.unexpired_ms < 600_000 || mw <= (10 * mo).max(900), format!("c12/timeout/unexpired-timeout-slows-the-check/{}", c.strat), "{} with {} thread(s) on a 5000-state model: median {} ms without a timeout, {} ms with an (unexpired) 600 s timeout (runs: {:?} vs {:?})", c.strat, c.threads, mo, mw, without, with);
            cov.label("unexpired_timeout");
            cov.label(&format!("unexpired/{}", c.strat));
            cov.nontrivial(c);
            if cov.wants_sample() {
                cov.sample(json!({"case": c, "ms_without_timeout": without, "ms_with_unexpired_timeout": with, "result": va}));
            }
        }
        Ok(())
    }
}

/// The expiring scenario on the endless chain only: with 2 or 4 threads all workers but one sit
/// idle in the job market when the timeout closes it (which it does without a notification), and
/// every one of them has to come back for `join` to return.
pub struct IdleWorkersAtExpiry;
impl SubCheck for IdleWorkersAtExpiry {
    type Case = TimeoutCase;
    fn name(&self) -> &'static str {
        "timeout_with_idle_workers"
    }
    fn cases(&self, tier: Tier) -> u32 {
        tier.pick(4, 24)
    }
    fn workers(&self) -> usize {
        4
    }
    fn max_shrink_iters(&self) -> u32 {
        0
    }
    fn strategy(&self, _tier: Tier) -> BoxedStrategy<TimeoutCase> {
        (prop_oneof![Just("bfs"), Just("dfs"), Just("on_demand")], prop_oneof![Just(2usize), Just(4usize), Just(8usize)], 150u64..700)
            .prop_map(|(s, threads, timeout_ms)| TimeoutCase { strat: s.to_string(), threads, expiring: true, timeout_ms, unexpired_ms: far_away(), chain: true })
            .boxed()
    }
    fn check(&self, c: &TimeoutCase, cov: &mut Cov) -> Result<(), Fail> {
        check_one(c, cov)
    }
    fn mandatory(&self) -> Vec<&'static str> {
        vec!["expiring/idle_workers_at_expiry"]
    }
}
