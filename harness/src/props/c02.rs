//! C02 — always/sometimes verdicts are exact once a check completes.

use crate::engine::*;
use crate::graph::*;
use crate::props::c01::{exhaustive_strat, threads_strategy};
use crate::runner::*;
use crate::{ensure, fail};
use proptest::prelude::*;
use serde::{Deserialize, Serialize};
use serde_json::json;
use std::collections::BTreeSet;
use std::time::Duration;

#[derive(Clone, Debug, Serialize, Deserialize)]
pub struct GCase {
    pub g: GraphDesc,
    pub cfg: RunCfg,
}

/// Oracle verdict for an always/sometimes property: should a discovery exist after completion?
pub fn expect_discovery(g: &GraphDesc, reach: &BTreeSet<u32>, p: &PropDesc) -> Option<bool> {
    match p.exp {
        Exp::Always => Some(reach.iter().any(|s| !p.on.contains(s))),
        Exp::Sometimes => Some(reach.iter().any(|s| p.on.contains(s))),
        Exp::Eventually => {
            let _ = g;
            None
        }
    }
}

pub struct Verdicts;
impl SubCheck for Verdicts {
    type Case = GCase;
    fn name(&self) -> &'static str {
        "verdicts"
    }
    fn cases(&self, tier: Tier) -> u32 {
        tier.pick(8000, 120000)
    }
    fn strategy(&self, tier: Tier) -> BoxedStrategy<GCase> {
        let mut p = GraphParams::small();
        p.max_props = 5;
        p.min_props = 1;
        p.max_n = tier.pick(24, 50);
        (graph_strategy(p), exhaustive_strat(), threads_strategy(), block_strategy())
            .prop_map(|(g, strat, threads, block)| GCase { g, cfg: RunCfg::plain(strat, threads).with_block(block) })
            .boxed()
    }
    fn check(&self, case: &GCase, cov: &mut Cov) -> Result<(), Fail> {
        let g = &case.g;
        let gm = GM::new(g);
        let r = g.reach();
        let out = run_checker(gm, &case.cfg, &PROP_NAMES, None, false, Duration::from_secs(120));
        if out.gave_up {
            fail!("inconclusive/workers-did-not-finish", "{:?}", case.cfg);
        }
        cov.eval();
        let disc = match &out.discoveries {
            Ok(d) => d,
            Err(e) => fail!("c02/discoveries-panicked", "discoveries() panicked: {}", e),
        };
        let mut expect_assert_ok = true;
        let mut has_yes = false;
        let mut has_no = false;
        let mut min_witness_dist = u32::MAX;
        for (k, p) in g.props.iter().enumerate() {
            let name = PROP_NAMES[k];
            let got = disc.contains_key(name);
            match expect_discovery(g, &r.set, p) {
                Some(want) => {
                    if want {
                        has_yes = true;
                        let d = r.set.iter().filter(|s| p.on.contains(s) == (p.exp == Exp::Sometimes)).filter_map(|s| r.dist[*s as usize]).min().unwrap();
                        min_witness_dist = min_witness_dist.min(d);
                    } else {
                        has_no = true;
                    }
                    let kind = if p.exp == Exp::Always { "always" } else { "sometimes" };
                    if got && !want {
                        fail!(format!("c02/{}-discovery-without-witness", kind), "{} property {} has a discovery but no reachable in-boundary state {} it ({:?})", kind, name, if p.exp == Exp::Always { "violates" } else { "satisfies" }, case.cfg);
                    }
                    if !got && want {
                        fail!(format!("c02/{}-witness-missed", kind), "{} property {} has no discovery although a reachable in-boundary state {} it ({:?})", kind, name, if p.exp == Exp::Always { "violates" } else { "satisfies" }, case.cfg);
                    }
                    cov.label(match (kind, want) {
                        ("always", true) => "always_violated_and_reported",
                        ("always", false) => "always_holds_and_silent",
                        (_, true) => "sometimes_witnessed_and_reported",
                        (_, false) => "sometimes_unwitnessed_and_silent",
                    });
                    if (p.exp == Exp::Always && want) || (p.exp == Exp::Sometimes && !want) {
                        expect_assert_ok = false;
                    }
                }
                None => {
                    if got {
                        expect_assert_ok = false;
                    }
                }
            }
        }
        ensure!(out.assert_ok == expect_assert_ok, "c02/assert_properties-wrong", "assert_properties() {} but the oracle says it should {} (discoveries {:?})", if out.assert_ok { "returned" } else { "panicked" }, if expect_assert_ok { "return" } else { "panic" }, disc.keys().collect::<Vec<_>>());
        ensure!(out.is_done, "c02/not-done", "is_done() false after completion");
        cov.label(case.cfg.strat.label());
        cov.label_if(case.cfg.threads > 1, "threads>1");
        if has_yes && has_no && min_witness_dist >= 1 {
            cov.nontrivial(&(g, &case.cfg));
            if cov.wants_sample() {
                cov.sample(json!({"graph": g, "cfg": case.cfg, "discovered": disc.keys().collect::<Vec<_>>(), "assert_properties_ok": out.assert_ok}));
            }
        }
        Ok(())
    }
    fn mandatory(&self) -> Vec<&'static str> {
        vec!["bfs", "dfs", "on_demand", "threads>1", "always_violated_and_reported", "always_holds_and_silent", "sometimes_witnessed_and_reported", "sometimes_unwitnessed_and_silent"]
    }
}

pub fn spec() -> PropSpec {
    PropSpec {
        id: "C02",
        level: "exploration",
        rule: "Cases = (generated graph model with 1-5 properties of all three expectations and generated truth tables, exhaustive strategy, threads). After completion the set of discovered always/sometimes names, assert_properties (under catch_unwind) and is_done are compared with witness sets computed from an independent reachability oracle (both directions). Non-trivial = at least one property with and one without a witness, nearest witness >= 1 step from an initial state; distinct by hash of (graph, config).",
        assumptions: vec!["no fingerprint collision at these sizes", "eventually-verdicts are taken as reported (decided by C11)"],
        subs: vec![Box::new(Verdicts)],
    }
}
