//! C09 — crash faults: every allowed crash point is explored; crashed actors stay silent.

use crate::engine::*;
use crate::refsys::*;
use crate::runner::*;
use crate::{ensure, fail};
use proptest::prelude::*;
use serde_json::json;
use std::collections::{BTreeSet, HashSet};
use std::time::Duration;

struct CrashObs<'a> {
    sys: &'a SysDesc,
    cov: &'a mut Cov,
    sys_hash: u64,
    err: Option<Fail>,
}
impl<'a> Observer for CrashObs<'a> {
    fn transition(&mut self, from: &RState, a: &RAct, to: Option<&RState>) {
        self.cov.eval();
        // statement-level invariants, independent of the reference interpreter
        let n_down = from.crashed.iter().filter(|c| **c).count();
        match (a, to) {
            (RAct::Crash(i), Some(to)) => {
                if from.crashed[*i] || n_down >= self.sys.max_crashes {
                    self.err.get_or_insert(Fail::new("c09/crash-offered-beyond-budget-or-for-down-actor", format!("{:?} offered in {:?} (budget {})", a, from, self.sys.max_crashes)));
                }
                let mut nt = false;
                if !from.timers[*i].is_empty() {
                    self.cov.label("crash_with_pending_timer");
                    nt = true;
                }
                if !from.choices[*i].is_empty() {
                    self.cov.label("crash_with_pending_choice");
                    nt = true;
                }
                if from.net.all().iter().any(|e| e.1 == *i) {
                    self.cov.label("crash_with_inflight_message");
                    nt = true;
                    if to.net != from.net {
                        self.err.get_or_insert(Fail::new("c09/crash-changed-network", format!("{:?}: network {:?} -> {:?}", a, from.net, to.net)));
                    }
                }
                if !to.timers[*i].is_empty() || !to.choices[*i].is_empty() {
                    self.err.get_or_insert(Fail::new("c09/crash-kept-timers-or-choices", format!("{:?} from {:?} gives {:?}", a, from, to)));
                }
                if nt {
                    self.cov.nontrivial(&(self.sys_hash, from, a));
                    if self.cov.wants_sample() && self.cov.evaluations % 31 == 0 {
                        self.cov.sample(json!({"system": self.sys, "state": format!("{:?}", from), "crash": i, "successor": format!("{:?}", to)}));
                    }
                }
                self.cov.label("crash_step");
            }
            (RAct::Deliver(_, d, _), to) if *d < from.crashed.len() && from.crashed[*d] => {
                self.cov.label("deliver_to_crashed_is_no_transition");
                if to.is_some() {
                    self.err.get_or_insert(Fail::new("c09/crashed-actor-received-message", format!("{:?} in {:?}", a, from)));
                }
            }
            (RAct::Timeout(i, _), _) | (RAct::Select(i, _, _), _) if from.crashed[*i] => {
                self.err.get_or_insert(Fail::new("c09/crashed-actor-timer-or-choice-enabled", format!("{:?} in {:?}", a, from)));
            }
            _ => {}
        }
        if let Some(to) = to {
            // a crashed actor's local state never changes again; nobody comes back up
            for i in 0..from.crashed.len() {
                if from.crashed[i] && (to.actors[i] != from.actors[i] || !to.crashed[i] || !to.timers[i].is_empty() || !to.choices[i].is_empty()) {
                    self.err.get_or_insert(Fail::new("c09/crashed-actor-changed", format!("actor {} is down in {:?} but differs after {:?}: {:?}", i, from, a, to)));
                }
            }
            if n_down >= 1 && !matches!(a, RAct::Crash(_)) {
                self.cov.label("step_of_other_actor_while_one_is_down");
            }
        }
    }
}

fn crash_params() -> SysParams {
    let mut p = SysParams::general();
    p.w = [4, 3, 1, 2, 1];
    p.max_init_env = 3;
    p
}

pub struct CrashSemantics;
impl SubCheck for CrashSemantics {
    fn fuzzable(&self) -> bool {
        true
    }
    type Case = SysDesc;
    fn name(&self) -> &'static str {
        "crash_points_enumerated"
    }
    fn cases(&self, tier: Tier) -> u32 {
        tier.pick(2500, 30000)
    }
    fn strategy(&self, _tier: Tier) -> BoxedStrategy<SysDesc> {
        sys_strategy(crash_params())
            .prop_map(|mut s| {
                if s.max_crashes == 0 {
                    s.max_crashes = 1;
                }
                s.hist.net_bound = 3;
                s
            })
            .boxed()
    }
    fn check(&self, sys: &SysDesc, cov: &mut Cov) -> Result<(), Fail> {
        let model = sys.real_model();
        let mut obs = CrashObs { sys, cov, sys_hash: hash_of(sys), err: None };
        let res = explore_diff(&model, sys, &|s: &u8| *s, 3000, &mut obs);
        if let Some(f) = obs.err.take() {
            return Err(f);
        }
        let ex = res.map_err(|f| Fail::new(format!("c09/{}", f.sig), f.detail))?;
        cov.label(if ex.capped { "space_capped" } else { "space_exhausted" });
        let combos: BTreeSet<Vec<bool>> = ex.states.iter().map(|s| s.crashed.clone()).collect();
        let by_size = |k: usize| combos.iter().filter(|c| c.iter().filter(|x| **x).count() == k).count();
        cov.label_if((1..=sys.n()).any(|k| by_size(k) >= 2), "several_crash_sets_of_same_size");
        cov.count("states", ex.states.len() as u64);
        Ok(())
    }
    fn mandatory(&self) -> Vec<&'static str> {
        vec!["crash_with_pending_timer", "crash_with_pending_choice", "crash_with_inflight_message", "deliver_to_crashed_is_no_transition", "several_crash_sets_of_same_size", "space_exhausted", "step_of_other_actor_while_one_is_down"]
    }
}

/// Structural reachable set (reference form) of a system within its boundary, or None if capped.
pub fn structural_states(sys: &SysDesc, cap: usize) -> Result<Option<Vec<RState>>, Fail> {
    let model = sys.real_model();
    let ex = explore_diff(&model, sys, &|s: &u8| *s, cap, &mut NoObserver)?;
    Ok(if ex.capped { None } else { Some(ex.states) })
}

pub struct CheckerLevel;
impl SubCheck for CheckerLevel {
    type Case = (SysDesc, bool, usize);
    fn name(&self) -> &'static str {
        "checker_explores_every_crash_combination"
    }
    fn cases(&self, tier: Tier) -> u32 {
        tier.pick(1000, 15000)
    }
    fn strategy(&self, _tier: Tier) -> BoxedStrategy<Self::Case> {
        let mut p = crash_params();
        p.density = 110;
        p.max_cmds = 2;
        (
            sys_strategy(p).prop_map(|mut s| {
                if s.max_crashes == 0 {
                    s.max_crashes = 1;
                }
                s.hist.net_bound = 2;
                s.hist.cap = 2;
                s
            }),
            any::<bool>(),
            prop_oneof![Just(1usize), Just(2usize), Just(4usize)],
        )
            .boxed()
    }
    fn check(&self, (sys, bfs, threads): &Self::Case, cov: &mut Cov) -> Result<(), Fail> {
        let Some(states) = structural_states(sys, 6000).map_err(|f| Fail::new(format!("c09/{}", f.sig), f.detail))? else {
            cov.label("space_capped_skipped");
            return Ok(());
        };
        if states.is_empty() {
            cov.label("initial_state_outside_boundary_skipped");
            return Ok(());
        }
        let want_combos: BTreeSet<Vec<bool>> = states.iter().map(|s| s.crashed.clone()).collect();
        let cfg = RunCfg::plain(if *bfs { Strat::Bfs } else { Strat::Dfs }, *threads);
        let out = run_checker(sys.real_model(), &cfg, &[], None, true, Duration::from_secs(120));
        if out.gave_up {
            fail!("inconclusive/workers-did-not-finish", "{:?}", cfg);
        }
        cov.eval();
        if std::env::var("VERIF_DEBUG").is_ok() {
            use stateright::Model;
            let m = sys.real_model();
            let i = m.init_states();
            eprintln!("inits={} inb={:?} netlen={} bound={}", i.len(), i.iter().map(|s| Model::within_boundary(&m, s)).collect::<Vec<_>>(), i[0].network.len(), m.cfg.net_bound);
            eprintln!("visits={} unique={} state_count={} done={} panicked={} disc={:?}", out.visits.len(), out.unique, out.state_count, out.is_done, out.worker_panicked, out.discoveries.as_ref().map(|d| d.len()));
        }
        let seen_combos: BTreeSet<Vec<bool>> = out.visits.iter().map(|v| v.path.last().unwrap().0.crashed.clone()).collect();
        let missing: Vec<_> = want_combos.difference(&seen_combos).collect();
        ensure!(missing.is_empty(), "c09/checker-missed-crash-combination", "{} with {} thread(s) never evaluated a state with crashed = {:?}; reachable crash combinations: {:?} (budget {})", cfg.strat.label(), threads, missing, want_combos, sys.max_crashes);
        let seen_structural: HashSet<RState> = out.visits.iter().map(|v| conv_state(&v.path.last().unwrap().0, &|s: &u8| *s)).collect();
        ensure!(out.unique == states.len() && seen_structural.len() == states.len(), "c09/checker-state-count-differs", "{} structurally distinct states are reachable within the boundary, the checker reports unique_state_count={} and evaluated {} distinct states", states.len(), out.unique, seen_structural.len());
        cov.label(cfg.strat.label());
        cov.label_if(want_combos.len() >= 3, "three_or_more_crash_combinations");
        if want_combos.len() >= 2 {
            cov.nontrivial(&(sys, bfs, threads));
            if cov.wants_sample() {
                cov.sample(json!({"system": sys, "strategy": cfg.strat.label(), "threads": threads, "reachable_states": states.len(), "crash_combinations": want_combos}));
            }
        }
        Ok(())
    }
    fn mandatory(&self) -> Vec<&'static str> {
        vec!["bfs", "dfs", "three_or_more_crash_combinations"]
    }
}

/// Wide systems: more actors than a machine word has bits, all quiet, crash budget 1 or 2. The
/// reachable states are exactly the crash sets within the budget, which is a closed formula.
pub struct WideSystems;
#[derive(Clone)]
struct Quiet;
impl stateright::actor::Actor for Quiet {
    type Msg = u8;
    type State = u8;
    type Timer = ();
    type Random = ();
    fn on_start(&self, _: stateright::actor::Id, _: &mut stateright::actor::Out<Self>) -> u8 {
        0
    }
}
impl SubCheck for WideSystems {
    type Case = (usize, usize, bool, usize);
    fn name(&self) -> &'static str {
        "wide_quiet_systems"
    }
    fn cases(&self, tier: Tier) -> u32 {
        tier.pick(12, 120)
    }
    fn strategy(&self, _tier: Tier) -> BoxedStrategy<Self::Case> {
        (prop_oneof![2 => 65usize..90, 1 => 2usize..12], 1usize..=2, any::<bool>(), prop_oneof![Just(1usize), Just(2usize)]).boxed()
    }
    fn check(&self, (n, budget, bfs, threads): &Self::Case, cov: &mut Cov) -> Result<(), Fail> {
        use stateright::actor::{ActorModel, Network};
        use stateright::{Checker, Expectation, Model};
        let model = ActorModel::new((), ())
            .actors((0..*n).map(|_| Quiet))
            .init_network(Network::new_unordered_nonduplicating([]))
            .max_crashes(*budget)
            .property(Expectation::Always, "true", |_, _| true);
        let b = model.checker().threads(*threads);
        let c = if *bfs { b.spawn_bfs().join().unique_state_count() } else { b.spawn_dfs().join().unique_state_count() };
        cov.eval();
        let want = 1 + n + if *budget >= 2 { n * (n - 1) / 2 } else { 0 };
        ensure!(c == want, "c09/checker-state-count-differs", "{} quiet actors, crash budget {}: {} crash sets are reachable, {} with {} thread(s) reports unique_state_count = {}", n, budget, want, if *bfs { "bfs" } else { "dfs" }, threads, c);
        cov.label_if(*n > 64, "more_than_64_actors");
        cov.label_if(*n <= 64, "narrow_control");
        cov.nontrivial(&(n, budget, bfs, threads));
        if cov.wants_sample() {
            cov.sample(json!({"quiet_actors": n, "crash_budget": budget, "reachable_crash_sets": want}));
        }
        Ok(())
    }
    fn mandatory(&self) -> Vec<&'static str> {
        vec!["more_than_64_actors"]
    }
}

pub fn spec() -> PropSpec {
    PropSpec {
        id: "C09",
        level: "fault_enumeration",
        rule: "Cases = generated actor systems (1-3 actors, crash budget 1..n, timers and random choices pending, messages in flight to every actor, three networks x lossy) whose bounded state space (network <= 3 messages, history capped) is enumerated exhaustively by the differential driver, so every crash point of every execution within the bound is taken: Crash(i) enabled <=> i is up and fewer than k are down; successor = flag set, i's timers and choices emptied, nothing else; crashed actors never receive/fire/choose and never change; other actors step as the reference says. Checker level: spawn_bfs/spawn_dfs on the same system must evaluate every reachable crash combination and report the structural number of states. One evaluation = one (state, action) pair or one checker run. Non-trivial = a crash taken while the actor has a pending timer/choice or an addressed in-flight message; distinct by hash of (system, state, action).",
        assumptions: vec!["bounded: <= 3 actors, network <= 3 messages; systems whose bounded space exceeds the cap are labelled space_capped and not counted as exhaustive"],
        subs: vec![Box::new(CrashSemantics), Box::new(CheckerLevel), Box::new(WideSystems)],
    }
}
