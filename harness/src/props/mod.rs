//! One module per property; `spec(id)` returns its sub-checks.
use crate::engine::PropSpec;

pub mod c01;
pub mod c02;
pub mod c03;
pub mod c04;
pub mod c05;
pub mod c06;
pub mod c07;
pub mod c08;
pub mod c09;
pub mod c10;
pub mod c11;
pub mod c12;
pub mod c12d;
pub mod c13;
pub mod c14;
pub mod c15;
pub mod c16;
pub mod c17;
pub mod c18;
pub mod c18b;
pub mod c19;
pub mod c20;

pub fn spec(id: &str) -> Option<PropSpec> {
    match id {
        "C01" => Some(c01::spec()),
        "C02" => Some(c02::spec()),
        "C03" => Some(c03::spec()),
        "C04" => Some(c04::spec()),
        "C05" => Some(c05::spec()),
        "C06" => Some(c06::spec()),
        "C07" => Some(c07::spec()),
        "C08" => Some(c08::spec()),
        "C09" => Some(c09::spec()),
        "C10" => Some(c10::spec()),
        "C11" => Some(c11::spec()),
        "C12" => Some(c12::spec()),
        "C13" => Some(c13::spec()),
        "C14" => Some(c14::spec()),
        "C15" => Some(c15::spec()),
        "C16" => Some(c16::spec()),
        "C17" => Some(c17::spec()),
        "C18" => Some(c18::spec()),
        "C19" => Some(c19::spec()),
        "C20" => Some(c20::spec()),
        _ => None,
    }
}

/// Child-process entry points (`srv <ID> child ...`).
pub fn child(id: &str, args: &[String]) -> i32 {
    match id {
        "C12" => c12d::child(args),
        _ => 2,
    }
}
