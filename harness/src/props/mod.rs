//! One module per property; `spec(id)` returns its sub-checks.
use crate::engine::PropSpec;

pub mod c01;

pub fn spec(id: &str) -> Option<PropSpec> {
    match id {
        "C01" => Some(c01::spec()),
        _ => None,
    }
}

/// Child-process entry points (`srv <ID> child ...`).
pub fn child(_id: &str, _args: &[String]) -> i32 {
    2
}
