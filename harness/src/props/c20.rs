//! C20 — vector clocks and dense maps obey their algebraic laws.

use crate::engine::*;
use crate::rechash::stream;
use crate::{ensure, fail};
use proptest::prelude::*;
use serde::{Deserialize, Serialize};
use serde_json::json;
use stateright::actor::Id;
use stateright::util::{DenseNatMap, VectorClock};
use stateright::{Rewrite, RewritePlan};
use std::cmp::Ordering;

#[derive(Clone, Debug, Serialize, Deserialize)]
pub struct ClockCase {
    pub a: Vec<u32>,
    pub b: Vec<u32>,
    pub c: Vec<u32>,
    pub inc: u8,
}

fn comp() -> impl Strategy<Value = u32> {
    prop_oneof![4 => Just(0u32), 3 => Just(1u32), 2 => Just(2u32), 1 => Just(3u32), 1 => Just(u32::MAX - 1), 1 => Just(u32::MAX), 1 => any::<u32>()]
}
fn clock() -> impl Strategy<Value = Vec<u32>> {
    proptest::collection::vec(comp(), 0..=6)
}
/// b derived from a: equal up to padding, one component changed, or independent
fn related(a: Vec<u32>, kind: u8, pos: u8, val: u32, other: Vec<u32>) -> Vec<u32> {
    match kind % 6 {
        0 => {
            let mut b = a;
            b.extend(std::iter::repeat(0).take((pos % 3) as usize));
            b
        }
        1 => {
            let mut b = a;
            while b.last() == Some(&0) {
                b.pop();
            }
            b
        }
        2 | 3 => {
            let mut b = a;
            if b.is_empty() {
                b.push(val);
            } else {
                let i = idx8(pos, b.len());
                b[i] = if kind % 6 == 2 { b[i].saturating_add(1 + val % 2) } else { b[i].saturating_sub(1 + val % 2) };
            }
            b
        }
        4 => {
            // componentwise >= a on a longer vector
            let mut b = a;
            b.push(val % 3);
            b
        }
        _ => other,
    }
}

fn le(a: &VectorClock, b: &VectorClock) -> bool {
    matches!(a.partial_cmp(b), Some(Ordering::Less) | Some(Ordering::Equal))
}
/// reference: componentwise comparison with implicit zeros
fn ref_le(a: &[u32], b: &[u32]) -> bool {
    (0..a.len().max(b.len())).all(|i| a.get(i).copied().unwrap_or(0) <= b.get(i).copied().unwrap_or(0))
}

pub struct Clocks;
impl SubCheck for Clocks {
    fn fuzzable(&self) -> bool {
        true
    }
    type Case = ClockCase;
    fn name(&self) -> &'static str {
        "vector_clock_laws"
    }
    fn cases(&self, tier: Tier) -> u32 {
        tier.pick(500000, 10000000)
    }
    fn strategy(&self, _tier: Tier) -> BoxedStrategy<ClockCase> {
        (clock(), clock(), clock(), any::<(u8, u8, u32)>(), any::<(u8, u8, u32)>(), any::<u8>())
            .prop_map(|(a, ob, oc, (k1, p1, v1), (k2, p2, v2), inc)| {
                let b = related(a.clone(), k1, p1, v1, ob);
                let c = related(b.clone(), k2, p2, v2, oc);
                ClockCase { a, b, c, inc }
            })
            .boxed()
    }
    fn check(&self, k: &ClockCase, cov: &mut Cov) -> Result<(), Fail> {
        let (a, b, c) = (VectorClock::from(k.a.clone()), VectorClock::from(k.b.clone()), VectorClock::from(k.c.clone()));
        cov.eval();
        // agreement with the componentwise reference (implicit trailing zeros)
        for (x, y, xs, ys) in [(&a, &b, &k.a, &k.b), (&b, &c, &k.b, &k.c), (&a, &c, &k.a, &k.c), (&b, &a, &k.b, &k.a)] {
            let want = match (ref_le(xs, ys), ref_le(ys, xs)) {
                (true, true) => Some(Ordering::Equal),
                (true, false) => Some(Ordering::Less),
                (false, true) => Some(Ordering::Greater),
                (false, false) => None,
            };
            ensure!(x.partial_cmp(y) == want, "c20/partial_cmp-wrong", "partial_cmp({:?},{:?}) = {:?}, componentwise order says {:?}", xs, ys, x.partial_cmp(y), want);
            ensure!((x == y) == (want == Some(Ordering::Equal)), "c20/eq-disagrees-with-partial_cmp", "({:?} == {:?}) = {} but partial_cmp = {:?}", xs, ys, x == y, x.partial_cmp(y));
        }
        // reflexive, antisymmetric, transitive
        ensure!(le(&a, &a) && a == a.clone(), "c20/not-reflexive", "{:?} is not <= itself", k.a);
        if le(&a, &b) && le(&b, &a) {
            ensure!(a == b, "c20/not-antisymmetric", "{:?} <= {:?} and back, but not equal", k.a, k.b);
        }
        if le(&a, &b) && le(&b, &c) {
            ensure!(le(&a, &c), "c20/not-transitive", "{:?} <= {:?} <= {:?} but not a <= c", k.a, k.b, k.c);
            cov.label("chain_a<=b<=c");
        }
        // equal clocks hash equally; unequal clocks feed a different stream
        if a == b {
            ensure!(stream(&a) == stream(&b), "c20/equal-clocks-hash-differently", "{:?} == {:?} but they feed different bytes to the hasher", k.a, k.b);
            cov.label_if(k.a != k.b, "equal_up_to_trailing_zeros");
        } else {
            ensure!(stream(&a) != stream(&b), "c20/unequal-clocks-hash-identically", "{:?} != {:?} but they feed identical bytes to the hasher", k.a, k.b);
        }
        // merge_max is the least upper bound
        let m = VectorClock::merge_max(&a, &b);
        ensure!(le(&a, &m) && le(&b, &m), "c20/merge_max-not-upper-bound", "merge_max({:?},{:?}) = {:?} is not an upper bound", k.a, k.b, m);
        if le(&a, &c) && le(&b, &c) {
            ensure!(le(&m, &c), "c20/merge_max-not-least", "{:?} is an upper bound of {:?} and {:?} but merge_max = {:?} is not below it", k.c, k.a, k.b, m);
            cov.label("common_upper_bound_generated");
        }
        ensure!(m == VectorClock::merge_max(&b, &a), "c20/merge_max-not-commutative", "{:?} {:?}", k.a, k.b);
        ensure!(VectorClock::merge_max(&a, &a) == a, "c20/merge_max-not-idempotent", "{:?}", k.a);
        ensure!(VectorClock::merge_max(&m, &c) == VectorClock::merge_max(&a, &VectorClock::merge_max(&b, &c)), "c20/merge_max-not-associative", "{:?} {:?} {:?}", k.a, k.b, k.c);
        // incrementing yields a strictly greater clock
        let i = (k.inc % 8) as usize;
        if k.a.get(i).copied().unwrap_or(0) < u32::MAX {
            let inc = a.clone().incremented(i);
            ensure!(a.partial_cmp(&inc) == Some(Ordering::Less) && inc.partial_cmp(&a) == Some(Ordering::Greater), "c20/incremented-not-greater", "{:?}.incremented({}) = {:?} is not strictly greater", k.a, i, inc);
            cov.label_if(i >= k.a.len(), "increment_beyond_length");
        }
        let incomparable = a.partial_cmp(&b).is_none();
        cov.label_if(incomparable, "incomparable");
        let tz = k.a.last() == Some(&0) || k.b.last() == Some(&0);
        cov.label_if(tz, "trailing_zero");
        if incomparable || tz {
            cov.nontrivial(&(&k.a, &k.b, &k.c));
            if cov.wants_sample() {
                cov.sample(json!({"a": k.a, "b": k.b, "c": k.c, "a?b": format!("{:?}", a.partial_cmp(&b)), "merge_max(a,b)": format!("{}", m)}));
            }
        }
        Ok(())
    }
    fn mandatory(&self) -> Vec<&'static str> {
        vec!["incomparable", "trailing_zero", "equal_up_to_trailing_zeros", "chain_a<=b<=c", "common_upper_bound_generated", "increment_beyond_length"]
    }
}

#[derive(Clone, Debug, Serialize, Deserialize)]
pub struct MapCase {
    pub values: Vec<u8>,
    /// permutation seed for the order in which pairs are offered
    pub order: Vec<u8>,
    /// 0 = valid, 1 = gap, 2 = duplicate key
    pub defect: u8,
    pub defect_at: u8,
    /// operation sequence: (kind, key raw, value)
    pub ops: Vec<(u8, u8, u8)>,
    /// values sorted to build a rewrite plan
    pub sort_keys: Vec<u8>,
}

fn shuffled<T: Clone>(v: &[T], order: &[u8]) -> Vec<T> {
    let mut idx: Vec<usize> = (0..v.len()).collect();
    // Fisher-Yates driven by the generated bytes (monotone index map)
    for i in (1..idx.len()).rev() {
        let r = order.get(i % order.len().max(1)).copied().unwrap_or(0).wrapping_add(i as u8);
        let j = idx8(r, i + 1);
        idx.swap(i, j);
    }
    idx.into_iter().map(|i| v[i].clone()).collect()
}

pub struct Maps;
impl SubCheck for Maps {
    fn fuzzable(&self) -> bool {
        true
    }
    type Case = MapCase;
    fn name(&self) -> &'static str {
        "dense_nat_map_laws"
    }
    fn cases(&self, tier: Tier) -> u32 {
        tier.pick(250000, 5000000)
    }
    fn strategy(&self, _tier: Tier) -> BoxedStrategy<MapCase> {
        (
            proptest::collection::vec(0u8..5, 0..7),
            proptest::collection::vec(any::<u8>(), 1..8),
            prop_oneof![4 => Just(0u8), 1 => Just(1u8), 1 => Just(2u8)],
            any::<u8>(),
            proptest::collection::vec((0u8..4, any::<u8>(), 0u8..5), 0..10),
            proptest::collection::vec(0u8..3, 0..7),
        )
            .prop_map(|(values, order, defect, defect_at, ops, sort_keys)| MapCase { values, order, defect, defect_at, ops, sort_keys })
            .boxed()
    }
    fn check(&self, c: &MapCase, cov: &mut Cov) -> Result<(), Fail> {
        cov.eval();
        let n = c.values.len();
        // construction from pairs is order independent; gaps and duplicate keys are rejected
        let mut pairs: Vec<(usize, u8)> = c.values.iter().copied().enumerate().collect();
        let mut defective = false;
        if n >= 1 && c.defect == 1 {
            let i = idx8(c.defect_at, n);
            if i + 1 < n || n == 1 {
                // shift keys >= i up by one: leaves a gap at i (for a single element: key 1 instead of 0)
                for p in pairs.iter_mut() {
                    if p.0 >= i {
                        p.0 += 1;
                    }
                }
                defective = true;
            }
        } else if n >= 2 && c.defect == 2 {
            let i = idx8(c.defect_at, n - 1);
            pairs[i + 1].0 = pairs[i].0;
            defective = true;
        }
        let offered = shuffled(&pairs, &c.order);
        let built = catch_quiet(|| offered.iter().map(|(k, v)| (Id::from(*k), *v)).collect::<DenseNatMap<Id, u8>>());
        if defective {
            ensure!(built.is_err(), "c20/dense-map-accepts-gap-or-duplicate", "DenseNatMap::from_iter accepted pairs {:?} (keys are not exactly 0..len)", offered);
            cov.label(if c.defect == 1 { "gap_rejected" } else { "duplicate_key_rejected" });
            cov.nontrivial(&("defect", &offered));
            return Ok(());
        }
        let built = match built {
            Ok(m) => m,
            Err(e) => fail!("c20/dense-map-rejects-valid-pairs", "from_iter panicked on valid pairs {:?}: {}", offered, e),
        };
        let direct: DenseNatMap<Id, u8> = DenseNatMap::from(c.values.clone());
        ensure!(built == direct, "c20/dense-map-construction-order-dependent", "pairs {:?} build {:?}, expected {:?}", offered, built, direct);
        ensure!(stream(&built) == stream(&direct), "c20/dense-map-equal-maps-hash-differently", "{:?}", offered);
        cov.label_if(offered != pairs, "non_identity_offer_order");
        // total map on 0..len, against a Vec model, over an operation sequence
        let mut m = direct.clone();
        let mut model = c.values.clone();
        for (kind, kraw, val) in &c.ops {
            let key = idx8(*kraw, model.len() + 2);
            match kind % 4 {
                0 => {
                    let r = catch_quiet(|| {
                        let mut m2 = m.clone();
                        let old = m2.insert(Id::from(key), *val);
                        (m2, old)
                    });
                    if key > model.len() {
                        ensure!(r.is_err(), "c20/dense-map-insert-beyond-len-accepted", "insert at {} into a map of len {} did not panic", key, model.len());
                        cov.label("out_of_range_insert_rejected");
                    } else {
                        let (m2, old) = match r {
                            Ok(x) => x,
                            Err(e) => fail!("c20/dense-map-insert-panicked", "insert at {} (len {}): {}", key, model.len(), e),
                        };
                        let want_old = model.get(key).copied();
                        if key == model.len() {
                            model.push(*val);
                        } else {
                            model[key] = *val;
                        }
                        ensure!(old == want_old, "c20/dense-map-insert-returns-wrong-old-value", "insert({},{}) returned {:?}, expected {:?}", key, val, old, want_old);
                        m = m2;
                    }
                }
                1 => {
                    ensure!(m.get(Id::from(key)) == model.get(key), "c20/dense-map-get-wrong", "get({}) = {:?}, model {:?}", key, m.get(Id::from(key)), model.get(key));
                }
                2 => {
                    if key < model.len() {
                        ensure!(m[Id::from(key)] == model[key], "c20/dense-map-index-wrong", "index {}", key);
                    }
                }
                _ => {}
            }
            ensure!(m.len() == model.len(), "c20/dense-map-len-wrong", "len {} vs model {}", m.len(), model.len());
            let it: Vec<(usize, u8)> = m.iter().map(|(k, v)| (usize::from(k), *v)).collect();
            let want: Vec<(usize, u8)> = model.iter().copied().enumerate().collect();
            ensure!(it == want, "c20/dense-map-iter-wrong", "iter {:?} vs model {:?}", it, want);
            ensure!(m.values().copied().collect::<Vec<_>>() == model, "c20/dense-map-values-wrong", "values");
        }
        // rewriting under a plan moves each value to the rewritten key
        let keys: Vec<u8> = (0..model.len()).map(|i| c.sort_keys.get(i).copied().unwrap_or(0)).collect();
        let plan: RewritePlan<Id, _> = RewritePlan::from_values_to_sort(&keys);
        let idm: DenseNatMap<Id, Id> = model.iter().enumerate().map(|(i, _)| Id::from((i * 7 + 1) % model.len().max(1))).collect::<Vec<Id>>().into();
        let rew = idm.rewrite(&plan);
        for i in 0..model.len() {
            let k = Id::from(i);
            let moved = rew.get(plan.rewrite(&k)).copied();
            let want = idm.get(k).map(|v| plan.rewrite(v));
            ensure!(moved == want, "c20/dense-map-rewrite-wrong", "values {:?} sort keys {:?}: rewritten map has {:?} at rewritten key {:?}, expected {:?}", idm, keys, moved, plan.rewrite(&k), want);
        }
        let non_identity = (0..model.len()).any(|i| usize::from(plan.rewrite(&Id::from(i))) != i);
        cov.label_if(non_identity, "non_identity_plan");
        if model.len() >= 3 && (non_identity || offered != pairs) {
            cov.nontrivial(&(&c.values, &c.order, &c.ops, &c.sort_keys));
            if cov.wants_sample() {
                cov.sample(json!({"pairs_offered": offered, "ops": c.ops, "sort_keys": keys, "final": model}));
            }
        }
        Ok(())
    }
    fn mandatory(&self) -> Vec<&'static str> {
        vec!["gap_rejected", "duplicate_key_rejected", "non_identity_offer_order", "out_of_range_insert_rejected", "non_identity_plan"]
    }
}

pub fn spec() -> PropSpec {
    PropSpec {
        id: "C20",
        level: "exploration",
        rule: "Clocks: generated triples (lengths 0-6, components from {0,1,2,3,MAX-1,MAX,random}, b and c derived from the previous clock by padding/trimming zeros, bumping one component, extending, or independent, so comparable pairs and common upper bounds are frequent). Oracle: componentwise order with implicit zeros for partial_cmp/==; reflexive, antisymmetric, transitive; merge_max upper bound, least (against generated upper bounds), commutative, associative, idempotent; incremented strictly greater; equal clocks feed identical hasher call sequences and unequal ones different. Maps: from_iter over generated key orders equals the map built from the values; gaps and duplicate keys must panic; insert/get/index/iter/len/values against a Vec model over generated operation sequences (out-of-range insert panics); rewriting under a plan built by sorting moves each value to the rewritten key. Non-trivial = incomparable or trailing-zero clock pairs; maps with >= 3 keys under a non-identity permutation; rejected defects. Distinct by hash of the case.",
        assumptions: vec!["component overflow (u32::MAX + 1) is outside the statement and not exercised"],
        subs: vec![Box::new(Clocks), Box::new(Maps)],
    }
}
