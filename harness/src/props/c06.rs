//! C06 — an actor-model transition is exactly one atomic handler step of one actor.

use crate::engine::*;
use crate::refsys::*;
use proptest::prelude::*;
use serde_json::json;

pub struct Obs<'a> {
    pub sys: &'a SysDesc,
    pub cov: &'a mut Cov,
    pub sys_hash: u64,
    pub nontrivial_labels: &'static [&'static str],
}
impl<'a> Observer for Obs<'a> {
    fn transition(&mut self, from: &RState, a: &RAct, to: Option<&RState>) {
        let labels = classify_transition(self.sys, from, a, to);
        self.cov.label(act_kind(a));
        let mut nt = false;
        for l in &labels {
            self.cov.label(l);
            nt |= self.nontrivial_labels.contains(l);
        }
        if nt {
            self.cov.nontrivial(&(self.sys_hash, from, a));
            if self.cov.wants_sample() && self.cov.evaluations % 97 == 0 {
                self.cov.sample(json!({"system": self.sys, "state": format!("{:?}", from), "action": format!("{:?}", a), "successor": format!("{:?}", to), "classes": labels}));
            }
        }
        self.cov.eval();
    }
}

pub struct Transitions;
impl SubCheck for Transitions {
    fn fuzzable(&self) -> bool {
        true
    }
    type Case = SysDesc;
    fn name(&self) -> &'static str {
        "transition_relation"
    }
    fn cases(&self, tier: Tier) -> u32 {
        tier.pick(3000, 40000)
    }
    fn strategy(&self, _tier: Tier) -> BoxedStrategy<SysDesc> {
        sys_strategy(SysParams::general())
    }
    fn check(&self, sys: &SysDesc, cov: &mut Cov) -> Result<(), Fail> {
        let model = sys.real_model();
        let h = hash_of(sys);
        let mut obs = Obs { sys, cov, sys_hash: h, nontrivial_labels: &["multi_command_multi_kind", "cancel_set_timer", "remove_pending_random", "overwrite_pending_random"] };
        let ex = explore_diff(&model, sys, &|s: &u8| *s, 400, &mut obs).map_err(|f| Fail::new(format!("c06/{}", f.sig), f.detail))?;
        cov.count("states", ex.states.len() as u64);
        cov.label(match sys.net {
            NetKind::Ordered => "net_ordered",
            NetKind::NonDup => "net_nonduplicating",
            NetKind::Dup => "net_duplicating",
        });
        cov.label_if(sys.lossy, "lossy");
        Ok(())
    }
    fn mandatory(&self) -> Vec<&'static str> {
        vec!["cancel_set_timer", "remove_pending_random", "overwrite_pending_random", "renew_only_timeout", "noop_delivery_nondup", "noop_delivery_dup", "noop_delivery_consumed_ordered", "history_in", "history_out", "history_in_then_out", "multi_command_multi_kind", "deliver", "drop", "timeout", "crash", "select_random", "several_sends"]
    }
}

pub fn spec() -> PropSpec {
    PropSpec {
        id: "C06",
        level: "exploration",
        rule: "Cases = generated table-driven actor systems (1-3 actors; handlers emitting several commands of several kinds, renew-only timeouts, complete no-ops, sends to non-existent ids; three network kinds x lossy; crash budget; both history hooks). Every state reached by a bounded BFS over the real ActorModel (through Model::init_states/actions/next_state, identified structurally) is compared with an independent reference interpreter written from the property statement: enabled-action multiset, None-ness of each action and every component of each successor. One evaluation = one (state, action) comparison. Non-trivial = the handler emits >= 2 commands of >= 2 kinds, cancels a set timer, or removes/overwrites a pending random choice; distinct by hash of (system, state, action).",
        assumptions: vec!["'state touched but left equal' handlers are not generated: is_no_op is defined on Cow ownership, the property on 'changes nothing'"],
        subs: vec![Box::new(Transitions)],
    }
}
