//! C05 — parallel checking is schedule-independent, loses no work and always terminates.

use crate::engine::*;
use crate::graph::*;
use crate::props::c02::expect_discovery;
use crate::runner::*;
use crate::sched::{Scheduler, Stats};
use crate::{ensure, fail};
use proptest::prelude::*;
use serde::{Deserialize, Serialize};
use serde_json::json;
use stateright::verif_hooks::{self, Broker, Ctx};
use stateright::{Checker, Model, Path};
use std::collections::{BTreeMap, BTreeSet, VecDeque};
use std::sync::mpsc;
use std::sync::{Arc, Mutex};
use std::time::Duration;

#[derive(Clone, Debug, Serialize, Deserialize, PartialEq, Eq, Hash)]
pub enum Stop {
    Exhaust,
    /// finish_when(Any): stops as soon as some property has a discovery
    FinishAny,
    Target(usize),
    /// `next_state` panics at this state
    PanicAt(u32),
    /// any finish condition (used by C12's schedule-owned early-stop check)
    FinishWhen(Finish),
}

#[derive(Clone, Debug, Serialize, Deserialize, PartialEq, Eq, Hash)]
pub struct SchedCase {
    pub g: GraphDesc,
    pub strat: Strat,
    pub threads: usize,
    pub block: usize,
    pub stop: Stop,
    pub schedule: Vec<u8>,
    pub yield_in_model: bool,
    /// engine 2: no scheduler, real OS threads (block size = the default unless `block` > 0)
    #[serde(default)]
    pub real_threads: bool,
}

pub enum Joined {
    Returned,
    Panicked(String),
    Hung,
}

pub struct SchedOut {
    pub visits: Vec<Visit<GM>>,
    pub unique: usize,
    pub is_done: bool,
    pub discovered: Result<Vec<&'static str>, String>,
    /// the paths behind `discovered` (for the witness validation of C03's schedule-owned check)
    pub discovery_paths: std::collections::HashMap<&'static str, Path<S, u16>>,
    pub joined: Joined,
    pub deadlock: Option<String>,
    pub stuck: bool,
    pub stats: Stats,
}

/// Runs one checker under the cooperative scheduler and joins it (on a helper thread with a
/// watchdog, because the property under test is that `join` returns).
pub fn run_scheduled(c: &SchedCase, join_wait: Duration) -> SchedOut {
    let mut g = c.g.clone();
    g.yield_in_model = c.yield_in_model;
    if let Stop::PanicAt(s) = c.stop {
        g.panic_at = Some(s);
    }
    let gm = GM::new(&g);
    let sched = Arc::new(Scheduler::new(c.threads, c.schedule.clone()));
    let visits: Arc<Mutex<Vec<Visit<GM>>>> = Arc::new(Mutex::new(vec![]));
    let v2 = Arc::clone(&visits);
    // evaluated-state counter: lets the join watchdog tell "slow" (still evaluating) from "hung"
    let progress = Arc::new(std::sync::atomic::AtomicU64::new(0));
    let pr2 = Arc::clone(&progress);
    let mut cfg = RunCfg::plain(c.strat, c.threads);
    match c.stop {
        Stop::FinishAny => cfg.finish = Some(Finish::Any),
        Stop::FinishWhen(ref f) => cfg.finish = Some(f.clone()),
        Stop::Target(t) => cfg.target_state_count = Some(t),
        _ => {}
    }
    let b = builder(gm, &cfg, &PROP_NAMES, None).visitor(move |p: Path<S, u16>| {
        let thread = std::thread::current().name().unwrap_or("").to_string();
        pr2.fetch_add(1, std::sync::atomic::Ordering::Relaxed);
        v2.lock().unwrap().push(Visit { path: p.into_vec(), thread });
    });
    if c.real_threads {
        verif_hooks::set_spawn_ctx(if c.block > 0 { Some(Arc::new(Ctx { block_size: Some(c.block), sched: None })) } else { None });
    } else {
        verif_hooks::set_spawn_ctx(Some(Arc::new(Ctx { block_size: Some(c.block), sched: Some(sched.clone()) })));
    }
    /// `join()` on a helper thread. It is reported as hung only if it has not returned and no
    /// state has been evaluated for `wait` (a slow machine keeps evaluating; a hung join does not).
    fn joined<C: Checker<GM> + Send + 'static>(c: C, wait: Duration, progress: &std::sync::atomic::AtomicU64) -> (Joined, Option<(usize, bool, Result<std::collections::HashMap<&'static str, Path<S, u16>>, String>)>) {
        let (tx, rx) = mpsc::channel();
        std::thread::Builder::new()
            .name("srv-join".into())
            .spawn(move || {
                let r = catch_quiet(move || {
                    let c = c.join();
                    let d = catch_quiet(|| c.discoveries());
                    (c.unique_state_count(), c.is_done(), d)
                });
                let _ = tx.send(r);
            })
            .unwrap();
        let mut last = progress.load(std::sync::atomic::Ordering::Relaxed);
        let mut quiet_since = std::time::Instant::now();
        loop {
            match rx.recv_timeout(Duration::from_millis(250)) {
                Ok(Ok(res)) => return (Joined::Returned, Some(res)),
                Ok(Err(msg)) => return (Joined::Panicked(msg), None),
                Err(_) => {
                    let now = progress.load(std::sync::atomic::Ordering::Relaxed);
                    if now != last {
                        last = now;
                        quiet_since = std::time::Instant::now();
                    } else if quiet_since.elapsed() > wait {
                        return (Joined::Hung, None);
                    }
                }
            }
        }
    }
    let (j, res) = match c.strat {
        Strat::Bfs => {
            let ch = b.spawn_bfs();
            verif_hooks::set_spawn_ctx(None);
            joined(ch, join_wait, &progress)
        }
        Strat::Dfs => {
            let ch = b.spawn_dfs();
            verif_hooks::set_spawn_ctx(None);
            joined(ch, join_wait, &progress)
        }
        Strat::Sim(seed) => {
            let ch = b.spawn_simulation(seed, stateright::UniformChooser);
            verif_hooks::set_spawn_ctx(None);
            joined(ch, join_wait, &progress)
        }
        Strat::OnDemand => {
            let ch = b.spawn_on_demand();
            verif_hooks::set_spawn_ctx(None);
            ch.run_to_completion();
            joined(ch, join_wait, &progress)
        }
    };
    let (unique, is_done, paths) = res.unwrap_or((0, false, Err("join did not return a checker".into())));
    let discovered = paths.as_ref().map(|m| m.keys().copied().collect::<Vec<_>>()).map_err(|e| e.clone());
    let discovery_paths = paths.unwrap_or_default();
    let visits = std::mem::take(&mut *visits.lock().unwrap());
    SchedOut { visits, unique, is_done, discovered, discovery_paths, joined: j, deadlock: sched.deadlock(), stuck: sched.stuck(), stats: sched.stats() }
}

pub fn sched_strategy(tier: Tier) -> BoxedStrategy<SchedCase> {
    let mut p = GraphParams::small();
    p.max_n = tier.pick(45, 60);
    p.max_deg = 3;
    p.max_props = 3;
    p.min_props = 1;
    p.exps = vec![Exp::Always, Exp::Sometimes];
    p.force_true_always = true;
    // chains, combs and narrow DAGs at least as likely as bushy graphs (starvation class)
    p.shapes = vec![(2, Shape::Uniform), (3, Shape::Comb), (1, Shape::Dag(1)), (2, Shape::Dag(2)), (2, Shape::Forest), (1, Shape::Cyclic)];
    (
        graph_strategy(p),
        prop_oneof![Just(Strat::Bfs), Just(Strat::Dfs), Just(Strat::OnDemand)],
        2usize..=4,
        prop_oneof![3 => Just(1usize), 2 => Just(2usize), 1 => Just(3usize), 1 => Just(5usize)],
        prop_oneof![5 => Just(0u8), 2 => Just(1u8), 2 => Just(2u8), 2 => Just(3u8)],
        any::<u16>(),
        proptest::collection::vec(any::<u8>(), 0..300),
        proptest::bool::weighted(0.4),
    )
        .prop_map(|(g, strat, threads, block, stop, raw, schedule, yield_in_model)| {
            let stop = match stop {
                0 => Stop::Exhaust,
                1 => Stop::FinishAny,
                2 => Stop::Target(2 + idx(raw, 12)),
                _ => Stop::PanicAt(idx(raw, g.n as usize) as u32),
            };
            // on-demand ignores finish_when by design; use exhaustion there
            let stop = if strat == Strat::OnDemand && stop == Stop::FinishAny { Stop::Exhaust } else { stop };
            SchedCase { g, strat, threads, block, stop, schedule, yield_in_model, real_threads: false }
        })
        .boxed()
}

/// watchdog for join() (seconds): correct code returns within milliseconds
pub const JOIN_WAIT_S: u64 = 6;

pub fn check_scheduled(c: &SchedCase, cov: &mut Cov) -> Result<(), Fail> {
    let out = run_scheduled(c, Duration::from_secs(if c.real_threads { 60 } else { JOIN_WAIT_S }));
    cov.eval();
    if out.stuck {
        fail!("inconclusive/scheduler-watchdog", "a controlled thread did not reach a scheduling point within the watchdog: {:?}", c.stop);
    }
    let what = format!("{} threads={} block={} stop={:?}", c.strat.label(), c.threads, c.block, c.stop);
    if let Some(d) = &out.deadlock {
        fail!(format!("c05/{}/worker-sleeps-forever", c.strat.label()), "logical deadlock under {}: {} (a worker waits for a notification that never comes)", what, d);
    }
    let g = &c.g;
    let r = g.reach();
    let panic_reachable = match c.stop {
        Stop::PanicAt(s) => r.set.contains(&s) && g.edges[s as usize].iter().any(|_| true),
        _ => false,
    };
    match &out.joined {
        Joined::Hung => fail!(format!("c05/{}/join-did-not-return", c.strat.label()), "join() did not return under {} although no state had been evaluated for the whole watchdog period (the workers are no longer working)", what),
        Joined::Panicked(msg) => {
            ensure!(panic_reachable, format!("c05/{}/join-panicked-without-cause", c.strat.label()), "join() panicked under {}: {}", what, msg);
            cov.label("panic_surfaced_from_join");
        }
        Joined::Returned => {
            // a planted panic that was actually hit must surface
            if panic_reachable {
                let hit = out.visits.iter().any(|v| Some(v.path.last().unwrap().0 .0) == g.panic_at_for(&c.stop));
                // the state is only expanded if the run did not stop before; it was visited => next_state was called
                ensure!(!hit, format!("c05/{}/panic-swallowed", c.strat.label()), "a worker panicked in model code (state {:?} was evaluated) but join() returned normally under {}", c.stop, what);
            }
        }
    }
    // evaluated states: never twice, never outside the reachable set
    let mut seen: BTreeMap<u32, u32> = BTreeMap::new();
    let mut workers = BTreeSet::new();
    for v in &out.visits {
        *seen.entry(v.path.last().unwrap().0 .0).or_insert(0) += 1;
        workers.insert(v.thread.clone());
    }
    let twice: Vec<u32> = if c.strat.exhaustive() { seen.iter().filter(|(_, k)| **k > 1).map(|(s, _)| *s).collect() } else { vec![] };
    ensure!(twice.is_empty(), format!("c05/{}/work-handed-to-two-workers", c.strat.label()), "states {:?} were evaluated more than once under {}", twice, what);
    let extra: Vec<u32> = seen.keys().filter(|s| !r.set.contains(s)).copied().collect();
    ensure!(extra.is_empty(), format!("c05/{}/unreachable-state-evaluated", c.strat.label()), "{:?}", extra);
    if c.stop == Stop::Exhaust && c.strat.exhaustive() {
        let missing: Vec<u32> = r.set.iter().filter(|s| !seen.contains_key(s)).copied().collect();
        ensure!(missing.is_empty(), format!("c05/{}/work-lost", c.strat.label()), "states {:?} were never evaluated under {} (reachable: {}, evaluated: {})", missing, what, r.set.len(), seen.len());
        ensure!(out.unique == r.set.len(), format!("c05/{}/unique-count-differs-from-single-threaded", c.strat.label()), "unique_state_count={} but {} states are reachable", out.unique, r.set.len());
        ensure!(out.is_done, format!("c05/{}/not-done", c.strat.label()), "is_done() false after join");
        let disc = match &out.discovered {
            Ok(d) => d.clone(),
            Err(e) => fail!("c05/discoveries-panicked", "{}", e),
        };
        for (k, p) in g.props.iter().enumerate() {
            if let Some(want) = expect_discovery(g, &r.set, p) {
                ensure!(disc.contains(&PROP_NAMES[k]) == want, format!("c05/{}/verdict-differs-from-single-threaded", c.strat.label()), "property {} discovered={} but the (schedule independent) verdict is {} under {}", PROP_NAMES[k], !want, want, what);
            }
        }
    }
    // classification
    cov.label(c.strat.label());
    cov.label(match c.stop {
        Stop::Exhaust => "stop_exhaustion",
        Stop::FinishAny | Stop::FinishWhen(_) => "stop_finish_condition",
        Stop::Target(_) => "stop_target",
        Stop::PanicAt(_) => "stop_panic",
    });
    let st = &out.stats;
    cov.label_if(workers.len() >= 2, "two_workers_did_work");
    cov.label_if(st.wait_then_notified >= 1, "wait_then_notify_handoff");
    cov.label_if(st.cv_waits >= 10, "starvation(>=10_waits)");
    cov.label_if(st.waiter_at_exit_of_other >= 1, "worker_blocked_at_close");
    cov.label_if(c.yield_in_model, "yield_in_model_code");
    cov.count("handoffs", st.handoffs);
    cov.count("cv_waits", st.cv_waits);
    cov.count("decisions_used", st.decisions_used);
    if c.real_threads {
        cov.label_if(workers.len() >= 2, "real_threads_shared_work");
        if workers.len() >= 2 {
            cov.nontrivial(&(c.g.n, c.g.inits.clone(), c.strat, c.threads, format!("{:?}", c.stop), c.schedule.clone()));
            if cov.wants_sample() {
                cov.sample(json!({"big_graph_states": g.n, "strategy": c.strat.label(), "threads": c.threads, "stop": c.stop, "workers_that_evaluated_states": workers.len(), "evaluated": seen.len(), "reachable": r.set.len()}));
            }
        }
    } else if workers.len() >= 2 && st.wait_then_notified >= 1 {
        cov.nontrivial(c);
        if cov.wants_sample() {
            cov.sample(json!({"graph": g, "strategy": c.strat.label(), "threads": c.threads, "block": c.block, "stop": c.stop, "schedule_len": c.schedule.len(), "handoffs": st.handoffs, "cv_waits": st.cv_waits, "evaluated": seen.len(), "reachable": r.set.len()}));
        }
    }
    Ok(())
}

impl GraphDesc {
    fn panic_at_for(&self, stop: &Stop) -> Option<u32> {
        match stop {
            Stop::PanicAt(s) => Some(*s),
            _ => None,
        }
    }
}

pub struct Scheduled;
impl SubCheck for Scheduled {
    type Case = SchedCase;
    fn name(&self) -> &'static str {
        "scheduled_checker_runs"
    }
    fn cases(&self, tier: Tier) -> u32 {
        tier.pick(4000, 80000)
    }
    fn strategy(&self, tier: Tier) -> BoxedStrategy<SchedCase> {
        sched_strategy(tier)
    }
    fn check(&self, c: &SchedCase, cov: &mut Cov) -> Result<(), Fail> {
        check_scheduled(c, cov)
    }
    fn mandatory(&self) -> Vec<&'static str> {
        vec!["bfs", "dfs", "on_demand", "stop_exhaustion", "stop_finish_condition", "stop_target", "stop_panic", "two_workers_did_work", "wait_then_notify_handoff", "starvation(>=10_waits)", "worker_blocked_at_close", "panic_surfaced_from_join", "yield_in_model_code"]
    }
    fn max_shrink_iters(&self) -> u32 {
        600
    }
}

/// Join-heavy narrow DAGs with scheduling points inside model code: two workers generating the
/// same successor at the same time (map-insertion interleavings).
pub struct RacingJoins;
impl SubCheck for RacingJoins {
    type Case = SchedCase;
    fn name(&self) -> &'static str {
        "racing_joins"
    }
    fn cases(&self, tier: Tier) -> u32 {
        tier.pick(3000, 60000)
    }
    fn strategy(&self, _tier: Tier) -> BoxedStrategy<SchedCase> {
        let mut p = GraphParams::small();
        p.max_n = 16;
        p.max_deg = 3;
        p.max_props = 1;
        p.min_props = 0;
        p.oob_rate = 20;
        p.exps = vec![Exp::Always, Exp::Sometimes];
        p.force_true_always = true;
        p.shapes = vec![(3, Shape::Dag(2)), (2, Shape::Dag(3)), (1, Shape::Uniform)];
        p.max_inits = 2;
        (graph_strategy(p), prop_oneof![Just(Strat::Bfs), Just(Strat::Dfs), Just(Strat::OnDemand)], 2usize..=3, 1usize..=2, proptest::collection::vec(any::<u8>(), 20..200))
            .prop_map(|(g, strat, threads, block, schedule)| SchedCase { g, strat, threads, block, stop: Stop::Exhaust, schedule, yield_in_model: true, real_threads: false })
            .boxed()
    }
    fn check(&self, c: &SchedCase, cov: &mut Cov) -> Result<(), Fail> {
        cov.label_if(c.g.features().contains(&"join"), "join");
        check_scheduled(c, cov)
    }
    fn mandatory(&self) -> Vec<&'static str> {
        vec!["join", "two_workers_did_work", "bfs", "dfs", "on_demand"]
    }
    fn max_shrink_iters(&self) -> u32 {
        600
    }
}

/// Engine 2: real OS threads on graphs larger than the work block.
#[derive(Clone, Debug, Serialize, Deserialize, PartialEq, Eq, Hash)]
pub struct StressCase {
    pub seed: u64,
    pub n: u32,
    pub deg: u32,
    pub strat: Strat,
    pub threads: usize,
    pub stop: Stop,
    pub block: usize,
}
pub struct RealThreads;
impl SubCheck for RealThreads {
    type Case = StressCase;
    fn name(&self) -> &'static str {
        "real_thread_stress"
    }
    fn cases(&self, tier: Tier) -> u32 {
        tier.pick(48, 600)
    }
    fn strategy(&self, tier: Tier) -> BoxedStrategy<StressCase> {
        let max_n = tier.pick(8000u32, 60000u32);
        (
            any::<u64>(),
            1600u32..max_n,
            0u32..3,
            prop_oneof![3 => Just(Strat::Bfs), 3 => Just(Strat::Dfs), 2 => Just(Strat::OnDemand), 2 => (0u64..100).prop_map(Strat::Sim)],
            prop_oneof![Just(2usize), Just(4usize), Just(8usize), Just(16usize)],
            prop_oneof![2 => Just(0u8), 1 => Just(1u8), 2 => Just(2u8), 2 => Just(3u8)],
            prop_oneof![2 => Just(0usize), 1 => Just(50usize), 1 => Just(300usize)],
            any::<u16>(),
        )
            .prop_map(|(seed, n, deg, strat, threads, stop, block, raw)| {
                let stop = match (stop, strat) {
                    (_, Strat::Sim(_)) => Stop::Target(500 + idx(raw, 3000)),
                    (1, Strat::Bfs) | (1, Strat::Dfs) => Stop::FinishAny,
                    (2, _) => Stop::Target(500 + idx(raw, n as usize)),
                    (3, _) => Stop::PanicAt(idx(raw, n as usize) as u32),
                    _ => Stop::Exhaust,
                };
                let n = if strat == Strat::Dfs { n.min(20000) } else { n };
                StressCase { seed, n, deg, strat, threads, stop, block }
            })
            .boxed()
    }
    fn check(&self, c: &StressCase, cov: &mut Cov) -> Result<(), Fail> {
        // one sometimes-property with a witness far from the root (so FinishAny stops mid-way), one always-true
        let all: BTreeSet<u32> = (0..c.n).collect();
        let far: BTreeSet<u32> = (c.n / 2..c.n / 2 + 1).collect();
        let g = big_graph(c.seed, c.n, c.deg, vec![PropDesc { exp: Exp::Always, on: all }, PropDesc { exp: Exp::Sometimes, on: far }]);
        let sc = SchedCase { g, strat: c.strat, threads: c.threads, block: c.block, stop: c.stop.clone(), schedule: vec![], yield_in_model: false, real_threads: true };
        let mut inner = Cov::new(1);
        check_scheduled(&sc, &mut inner)?;
        cov.eval();
        for (l, k) in &inner.labels {
            for _ in 0..*k {
                cov.label(l);
            }
        }
        for h in inner.nontrivial.iter() {
            cov.nontrivial(&(*h, c.seed));
        }
        for s in inner.samples {
            cov.sample(s);
        }
        Ok(())
    }
    fn mandatory(&self) -> Vec<&'static str> {
        vec!["real_threads_shared_work", "bfs", "dfs", "on_demand", "simulation", "stop_exhaustion", "stop_target", "stop_panic"]
    }
    fn workers(&self) -> usize {
        3
    }
    fn max_shrink_iters(&self) -> u32 {
        40
    }
}

/// Stop reason "timeout" with workers idle in the job market at expiry (real time, child
/// processes with a hard kill: the scenario of C12(d) on the endless chain). The timeout closes the
/// market without a notification, so every idle worker depends on the running one to be woken.
pub struct TimeoutWithIdleWorkers;
impl SubCheck for TimeoutWithIdleWorkers {
    type Case = crate::props::c12d::TimeoutCase;
    fn name(&self) -> &'static str {
        "timeout_stops_idle_workers_too"
    }
    fn cases(&self, tier: Tier) -> u32 {
        tier.pick(4, 24)
    }
    fn workers(&self) -> usize {
        4
    }
    fn max_shrink_iters(&self) -> u32 {
        0
    }
    fn strategy(&self, tier: Tier) -> BoxedStrategy<Self::Case> {
        crate::props::c12d::IdleWorkersAtExpiry.strategy(tier)
    }
    fn check(&self, c: &Self::Case, cov: &mut Cov) -> Result<(), Fail> {
        crate::props::c12d::check_one(c, cov).map_err(|f| Fail::new(f.sig.replacen("c12/", "c05/", 1), f.detail))
    }
    fn mandatory(&self) -> Vec<&'static str> {
        vec!["expiring/idle_workers_at_expiry"]
    }
}

// ---------------------------------------------------------------------------------------------
// Broker facade programs (hook H4)
// ---------------------------------------------------------------------------------------------

#[derive(Clone, Debug, Serialize, Deserialize, PartialEq, Eq, Hash)]
pub struct BrokerCase {
    pub workers: usize,
    /// children of each job id
    pub children: Vec<Vec<u16>>,
    pub roots: Vec<u16>,
    pub block: usize,
    /// worker w quits (returns) right after processing this many jobs
    pub quit_after: Vec<Option<u8>>,
    pub schedule: Vec<u8>,
}

pub struct BrokerPrograms;
impl SubCheck for BrokerPrograms {
    type Case = BrokerCase;
    fn name(&self) -> &'static str {
        "job_broker_programs"
    }
    fn cases(&self, tier: Tier) -> u32 {
        tier.pick(3000, 100000)
    }
    fn strategy(&self, _tier: Tier) -> BoxedStrategy<BrokerCase> {
        (2usize..=4, 1usize..30)
            .prop_flat_map(|(workers, n)| {
                (
                    Just(workers),
                    // a forest over job ids: job i may only spawn larger ids, each id has one parent
                    proptest::collection::vec(any::<u16>(), n),
                    1usize..=5,
                    proptest::collection::vec(proptest::option::weighted(0.12, 0u8..6), workers),
                    proptest::collection::vec(any::<u8>(), 0..200),
                    1usize..=3,
                )
            })
            .prop_map(|(workers, parents, block, quit_after, schedule, nroots)| {
                let n = parents.len();
                let nroots = nroots.min(n);
                let mut children = vec![vec![]; n];
                for j in nroots..n {
                    let p = idx(parents[j], j);
                    children[p].push(j as u16);
                }
                BrokerCase { workers, children, roots: (0..nroots as u16).collect(), block, quit_after, schedule }
            })
            .boxed()
    }
    fn check(&self, c: &BrokerCase, cov: &mut Cov) -> Result<(), Fail> {
        let sched = Arc::new(Scheduler::new(c.workers, c.schedule.clone()));
        let ctx = Some(Arc::new(Ctx { block_size: None, sched: Some(sched.clone() as Arc<dyn verif_hooks::Sched>) }));
        verif_hooks::set_spawn_ctx(ctx.clone());
        let mut broker: Broker<u16> = Broker::new(c.workers);
        verif_hooks::set_spawn_ctx(None);
        broker.push(c.roots.iter().copied().collect());
        let processed: Arc<Mutex<Vec<(usize, u16)>>> = Arc::new(Mutex::new(vec![]));
        let children = Arc::new(c.children.clone());
        let mut handles = vec![];
        for w in 0..c.workers {
            let ctx = ctx.clone();
            let broker = broker.clone();
            let processed = Arc::clone(&processed);
            let children = Arc::clone(&children);
            let block = c.block;
            let quit_after = c.quit_after.get(w).copied().flatten();
            let workers = c.workers;
            handles.push(
                std::thread::Builder::new()
                    .name(format!("checker-{}", w))
                    .spawn(move || {
                        let _guard = verif_hooks::enter_worker(&ctx, w);
                        let mut broker = broker;
                        let mut pending: VecDeque<u16> = VecDeque::new();
                        let mut done = 0u32;
                        loop {
                            if pending.is_empty() {
                                pending = broker.pop();
                                if pending.is_empty() {
                                    return;
                                }
                            }
                            for _ in 0..block {
                                verif_hooks::yield_point("program.iteration");
                                let Some(j) = pending.pop_back() else { break };
                                processed.lock().unwrap().push((w, j));
                                done += 1;
                                for ch in &children[j as usize] {
                                    pending.push_front(*ch);
                                }
                                if quit_after == Some(done as u8) {
                                    return;
                                }
                            }
                            if pending.len() > 1 && workers > 1 {
                                broker.split_and_push(&mut pending);
                            }
                        }
                    })
                    .unwrap(),
            );
        }
        // (the handle of the spawning thread stays alive, like the one a checker keeps: dropping any
        // handle closes the market)
        // wait for the workers (watchdog: the scheduler unwinds blocked workers on a logical deadlock)
        let t0 = std::time::Instant::now();
        while !handles.iter().all(|h| h.is_finished()) {
            if t0.elapsed() > Duration::from_secs(30) {
                fail!("inconclusive/program-workers-did-not-finish", "broker program workers still running after 30 s");
            }
            std::thread::sleep(Duration::from_micros(50));
        }
        for h in handles {
            let _ = h.join();
        }
        drop(broker);
        cov.eval();
        if sched.stuck() {
            fail!("inconclusive/scheduler-watchdog", "watchdog");
        }
        if let Some(d) = sched.deadlock() {
            fail!("c05/broker/worker-sleeps-forever", "logical deadlock in a job-broker program with {} workers (quit_after {:?}): {}", c.workers, c.quit_after, d);
        }
        let done = processed.lock().unwrap().clone();
        let mut count: BTreeMap<u16, u32> = BTreeMap::new();
        for (_, j) in &done {
            *count.entry(*j).or_insert(0) += 1;
        }
        let twice: Vec<u16> = count.iter().filter(|(_, k)| **k > 1).map(|(j, _)| *j).collect();
        ensure!(twice.is_empty(), "c05/broker/job-handed-to-two-workers", "jobs {:?} were processed more than once", twice);
        let quitter = c.quit_after.iter().enumerate().any(|(w, q)| q.map_or(false, |q| done.iter().filter(|(ww, _)| *ww == w).count() as u8 >= q.max(1) && q > 0));
        if !quitter {
            let missing: Vec<usize> = (0..c.children.len()).filter(|j| !count.contains_key(&(*j as u16))).collect();
            ensure!(missing.is_empty(), "c05/broker/job-lost", "no worker quit early, yet jobs {:?} of {} were never processed (workers {}, block {})", missing, c.children.len(), c.workers, c.block);
        }
        let st = sched.stats();
        let by_worker: BTreeSet<usize> = done.iter().map(|(w, _)| *w).collect();
        cov.label_if(by_worker.len() >= 2, "two_workers_did_work");
        cov.label_if(st.wait_then_notified >= 1, "wait_then_notify_handoff");
        cov.label_if(quitter, "early_quit");
        cov.label_if(st.cv_waits >= 10, "starvation(>=10_waits)");
        cov.label_if(st.waiter_at_exit_of_other >= 1, "worker_blocked_at_close");
        if by_worker.len() >= 2 && st.wait_then_notified >= 1 {
            cov.nontrivial(c);
            if cov.wants_sample() {
                cov.sample(json!({"case": c, "processed_in_order": done, "cv_waits": st.cv_waits, "handoffs": st.handoffs}));
            }
        }
        Ok(())
    }
    fn mandatory(&self) -> Vec<&'static str> {
        vec!["two_workers_did_work", "wait_then_notify_handoff", "early_quit", "worker_blocked_at_close"]
    }
}

pub fn spec() -> PropSpec {
    let _ = |g: &GM| g.init_states();
    PropSpec {
        id: "C05",
        level: "exploration",
        rule: "Engine 1 (deciding): real checker worker threads run under a cooperative scheduler installed through the cfg-guarded sync shim: exactly one worker runs at a time and control changes hands only at lock / condvar-wait / yield points (block iteration, before the generated-set insertion, before work sharing, optionally inside model code) and at thread exit, following a generated byte schedule (shrinkable, replayable). Cases = (generated graph <= 48 states biased to chains/combs/narrow DAGs, strategy in {bfs,dfs,on-demand}, 2-4 workers, block size 1-5, stop reason in {exhaustion, finish condition, target_state_count, panic planted in next_state}, schedule). Oracle: no logical deadlock (no enabled worker while one is unfinished); join returns (30 s watchdog on a helper thread) or, for a planted panic that was hit, panics; no state evaluated twice or outside the reachable set; on exhaustion the evaluated set, unique_state_count and always/sometimes verdicts equal the schedule-independent reference. Plus programs over the public Broker facade (2-4 scripted workers, forests of job ids, early quits): every job processed exactly once when nobody quits, nothing twice, all workers return. Engine 2: real-thread stress runs compared with the reference. Non-trivial = >= 2 workers processed work and >= 1 wait->notify hand-off occurred; distinct by hash of the case.",
        assumptions: vec![
            "interleavings inside DashMap operations and of relaxed atomics are atomic at the scheduler's granularity and only sampled by the real-thread runs",
            "no spurious condvar wake-ups are injected (parking_lot documents none)",
        ],
        subs: vec![Box::new(Scheduled), Box::new(RacingJoins), Box::new(BrokerPrograms), Box::new(RealThreads), Box::new(TimeoutWithIdleWorkers)],
    }
}
