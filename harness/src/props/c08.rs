//! C08 — the linearizability tester decides linearizability exactly.
//! (shared with C14: the same driver runs either tester)

use crate::engine::*;
use crate::hist::*;
use crate::{ensure, fail};
use proptest::prelude::*;
use serde_json::json;
use stateright::semantics::{ConsistencyTester, LinearizabilityTester, SequentialConsistencyTester};
use std::fmt::Debug;

/// What the driver needs from either tester.
pub trait TesterApi<S: Spec>: ConsistencyTester<u8, S> + Clone + Debug + PartialEq
where
    S::Op: Clone + Debug + PartialEq,
    S::Ret: Clone + Debug + PartialEq,
{
    const REAL_TIME: bool;
    const NAME: &'static str;
    fn make(init: S) -> Self;
    fn serialized(&self) -> Option<Vec<(S::Op, S::Ret)>>;
    fn length(&self) -> usize;
}
impl<S: Spec> TesterApi<S> for LinearizabilityTester<u8, S>
where
    S::Op: Clone + Debug + PartialEq,
    S::Ret: Clone + Debug + PartialEq,
{
    const REAL_TIME: bool = true;
    const NAME: &'static str = "lin";
    fn make(init: S) -> Self {
        LinearizabilityTester::new(init)
    }
    fn serialized(&self) -> Option<Vec<(S::Op, S::Ret)>> {
        self.serialized_history()
    }
    fn length(&self) -> usize {
        self.len()
    }
}
impl<S: Spec> TesterApi<S> for SequentialConsistencyTester<u8, S>
where
    S::Op: Clone + Debug + PartialEq,
    S::Ret: Clone + Debug + PartialEq,
{
    const REAL_TIME: bool = false;
    const NAME: &'static str = "sc";
    fn make(init: S) -> Self {
        SequentialConsistencyTester::new(init)
    }
    fn serialized(&self) -> Option<Vec<(S::Op, S::Ret)>> {
        self.serialized_history()
    }
    fn length(&self) -> usize {
        self.len()
    }
}

/// Feeds events; returns per-event `is_ok`.
pub fn feed<S: Spec, T: TesterApi<S>>(t: &mut T, evs: &[Ev<S::Op, S::Ret>], use_invret: bool) -> Vec<bool>
where
    S::Op: Clone + Debug + PartialEq,
    S::Ret: Clone + Debug + PartialEq,
{
    let mut oks = vec![];
    let mut i = 0;
    while i < evs.len() {
        match (&evs[i], evs.get(i + 1)) {
            (Ev::Inv(t1, op), Some(Ev::Ret(t2, ret))) if use_invret && t1 == t2 => {
                let ok = t.on_invret(*t1, op.clone(), ret.clone()).is_ok();
                oks.push(ok);
                oks.push(ok);
                i += 2;
            }
            (Ev::Inv(th, op), _) => {
                oks.push(t.on_invoke(*th, op.clone()).is_ok());
                i += 1;
            }
            (Ev::Ret(th, ret), _) => {
                oks.push(t.on_return(*th, ret.clone()).is_ok());
                i += 1;
            }
        }
    }
    oks
}

pub fn check_tester<S: Spec, T: TesterApi<S>>(init: S, c: &HistCase, cov: &mut Cov, prefix: &str) -> Result<(), Fail>
where
    S::Op: Clone + Debug + PartialEq,
    S::Ret: Clone + Debug + PartialEq,
{
    let (evs, ill) = build_events(&init, c);
    let mut tester = T::make(init.clone());
    let use_invret = c.mutation.3 % 2 == 0;
    let oks = feed::<S, T>(&mut tester, &evs, use_invret);
    cov.eval();
    cov.label(spec_label(c));
    if let Some(p) = ill {
        ensure!(oks[..p].iter().all(|o| *o), format!("{}/well-formed-prefix-rejected", prefix), "an event before the ill-formed one was rejected: {:?} (ill-formed at {})", evs, p);
        ensure!(!oks[p], format!("{}/ill-formed-event-accepted", prefix), "event #{} of {:?} is ill-formed (double invocation or unmatched return) but was accepted", p, evs);
        ensure!(oks[p + 1..].iter().all(|o| !*o), format!("{}/event-accepted-after-ill-formed-history", prefix), "an event after the ill-formed event #{} was accepted: {:?}", p, evs);
        ensure!(!tester.is_consistent(), format!("{}/ill-formed-history-consistent", prefix), "ill-formed history {:?} is reported consistent", evs);
        ensure!(tester.serialized().is_none(), format!("{}/ill-formed-history-serialized", prefix), "ill-formed history {:?} has a serialization", evs);
        cov.label("ill_formed");
        // the second invocation of a busy thread arrived through on_invret (with its return)
        let via_invret = use_invret && matches!((&evs[p], evs.get(p + 1)), (Ev::Inv(t1, _), Some(Ev::Ret(t2, _))) if t1 == t2);
        cov.label_if(via_invret, "ill_formed_double_invocation_through_on_invret");
        cov.nontrivial(&(T::NAME, c));
        return Ok(());
    }
    ensure!(oks.iter().all(|o| *o), format!("{}/well-formed-event-rejected", prefix), "a well-formed history was rejected: {:?} -> {:?}", evs, oks);
    let ops = operations(&evs);
    let (want, _nodes) = consistent(&init, &ops, T::REAL_TIME);
    let got = tester.is_consistent();
    if got != want {
        fail!(format!("{}/{}", prefix, if got { "inconsistent-history-accepted" } else { "consistent-history-rejected" }), "{} tester says consistent={} but brute force over all orders says {} for history {:?} (initial object {:?})", T::NAME, got, want, evs, init);
    }
    match tester.serialized() {
        Some(ser) => {
            ensure!(want, format!("{}/serialization-of-inconsistent-history", prefix), "serialization {:?} returned for an inconsistent history {:?}", ser, evs);
            if let Err(e) = serialization_ok(&init, &ops, &ser, T::REAL_TIME) {
                fail!(format!("{}/serialization-invalid", prefix), "serialized_history() = {:?} for {:?}: {}", ser, evs, e);
            }
        }
        None => ensure!(!want, format!("{}/no-serialization-for-consistent-history", prefix), "no serialization for consistent history {:?}", evs),
    }
    ensure!(tester.length() == ops.len(), format!("{}/len-wrong", prefix), "len()={} but {} operations were recorded", tester.length(), ops.len());
    // classification
    let in_flight = ops.iter().any(|o| o.ret.is_none());
    cov.label(if want { "consistent" } else { "inconsistent" });
    cov.label_if(in_flight, "has_in_flight");
    if T::REAL_TIME && !want && consistent(&init, &ops, false).0 {
        cov.label("sequentially_consistent_but_not_linearizable");
    }
    if in_flight {
        let completed_only: Vec<_> = ops.iter().filter(|o| o.ret.is_some()).cloned().collect();
        if want && !consistent(&init, &completed_only, T::REAL_TIME).0 {
            cov.label("in_flight_needed");
        }
        // (an in-flight operation can always be appended at the end of an admissible order, so
        // "must be omitted" cannot occur; kept as a sanity check of the oracle itself)
        if want && !consistent_req(&init, &ops, T::REAL_TIME, true).0 {
            cov.label("oracle_anomaly_in_flight_must_be_omitted");
        }
    }
    let threads: std::collections::BTreeSet<u8> = ops.iter().map(|o| o.thread).collect();
    let overlap = ops.iter().any(|a| ops.iter().any(|b| a.inv_at < b.inv_at && a.ret_at.map_or(true, |r| b.inv_at < r)));
    if ops.len() >= 3 && threads.len() >= 2 && overlap {
        cov.nontrivial(&(T::NAME, c));
        if cov.wants_sample() {
            cov.sample(json!({"tester": T::NAME, "spec": spec_label(c), "history": format!("{:?}", evs), "consistent": got, "serialization": format!("{:?}", tester.serialized())}));
        }
    }
    Ok(())
}

pub fn dispatch<F>(c: &HistCase, lin: bool, cov: &mut Cov, prefix: &str) -> Result<(), Fail>
where
    F: Sized,
{
    macro_rules! go {
        ($init:expr, $S:ty) => {
            if lin {
                check_tester::<$S, LinearizabilityTester<u8, $S>>($init, c, cov, prefix)
            } else {
                check_tester::<$S, SequentialConsistencyTester<u8, $S>>($init, c, cov, prefix)
            }
        };
    }
    match spec_of(c) {
        AnySpec::Reg(s) => go!(s, stateright::semantics::register::Register<u8>),
        AnySpec::Wo(s) => go!(s, stateright::semantics::write_once_register::WORegister<u8>),
        AnySpec::Vec(s) => go!(s, Vec<u8>),
        AnySpec::Table(s) => go!(s, TableSpec),
        AnySpec::Pool(s) => go!(s, Pool),
    }
}

pub struct Lin;
impl SubCheck for Lin {
    fn fuzzable(&self) -> bool {
        true
    }
    type Case = HistCase;
    fn name(&self) -> &'static str {
        "linearizability_vs_brute_force"
    }
    fn cases(&self, tier: Tier) -> u32 {
        tier.pick(300000, 4000000)
    }
    fn strategy(&self, tier: Tier) -> BoxedStrategy<HistCase> {
        hist_strategy(tier.pick(18, 22))
    }
    fn check(&self, c: &HistCase, cov: &mut Cov) -> Result<(), Fail> {
        dispatch::<()>(c, true, cov, "c08")
    }
    fn mandatory(&self) -> Vec<&'static str> {
        vec!["consistent", "inconsistent", "sequentially_consistent_but_not_linearizable", "in_flight_needed", "ill_formed", "ill_formed_double_invocation_through_on_invret", "has_in_flight", "spec_register", "spec_write_once_register", "spec_vec", "spec_generated_table", "spec_nondeterministic_pool"]
    }
}

pub fn spec() -> PropSpec {
    PropSpec {
        id: "C08",
        level: "exploration",
        rule: "Cases = generated concurrent histories (<= 4 threads, <= ~9 operations, 3 values) over Register, WORegister, Vec and a generated finite-state specification that uses the default is_valid_step; four generation modes: linearizable by construction (random linearization point inside each operation), one mutation of such a history (changed return / swapped adjacent events / operation left in flight), free well-formed histories with plausible returns, ill-formed histories (double invocation, unmatched return). Events are fed through on_invoke/on_return/on_invret. Oracle: brute-force search over all total orders of completed operations plus any subset of in-flight ones respecting program order and real-time precedence, legality replayed with invoke; is_consistent must agree in both directions, every returned serialization must be legal and assignable to the recorded operations in an admissible order, ill-formed histories must be rejected and stay inconsistent, len() = completed + in flight. Non-trivial = >= 3 operations on >= 2 threads with an overlapping pair, or ill-formed; distinct by hash of the case.",
        assumptions: vec!["bounded history size: violations that need more than ~9 operations or more than 4 threads are out of reach"],
        subs: vec![Box::new(Lin)],
    }
}
