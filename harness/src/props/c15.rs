//! C15 — actor adapters are transparent to the actor they wrap.

use crate::engine::*;
use crate::refsys::*;
use crate::{ensure, fail};
use choice::{Choice, Never};
use proptest::prelude::*;
use serde::{Deserialize, Serialize};
use serde_json::json;
use stateright::actor::register::{RegisterActor, RegisterActorState, RegisterMsg};
use stateright::actor::write_once_register::{WORegisterActor, WORegisterActorState, WORegisterMsg};
use stateright::actor::*;
use stateright::Model;
use std::collections::{BTreeMap, HashSet, VecDeque};
use std::sync::Arc;

type A0 = TG<u8, 0>;
type A1 = TG<u8, 1>;
type A2 = TG<u8, 2>;
type Ch1 = Choice<A0, Never>;
type Ch2 = Choice<A0, Choice<A1, Never>>;
type Ch3 = Choice<A0, Choice<A1, Choice<A2, Never>>>;

impl MsgCodec for RegisterMsg<u64, char, u8> {
    fn to_u8(&self) -> u8 {
        match self {
            RegisterMsg::Internal(m) => *m,
            RegisterMsg::Put(_, _) => 1,
            RegisterMsg::Get(_) => 2,
            RegisterMsg::PutOk(_) => 3,
            RegisterMsg::GetOk(_, _) => 3,
        }
    }
    fn from_u8(m: u8) -> Self {
        match m {
            1 => RegisterMsg::Put(7, 'x'),
            2 => RegisterMsg::Get(9),
            3 => RegisterMsg::PutOk(7),
            other => RegisterMsg::Internal(other),
        }
    }
}
impl MsgCodec for WORegisterMsg<u64, char, u8> {
    fn to_u8(&self) -> u8 {
        match self {
            WORegisterMsg::Internal(m) => *m,
            WORegisterMsg::Put(_, _) => 1,
            WORegisterMsg::Get(_) => 2,
            WORegisterMsg::PutFail(_) => 3,
            WORegisterMsg::PutOk(_) => 3,
            WORegisterMsg::GetOk(_, _) => 3,
        }
    }
    fn from_u8(m: u8) -> Self {
        match m {
            1 => WORegisterMsg::Put(7, 'x'),
            2 => WORegisterMsg::Get(9),
            3 => WORegisterMsg::PutFail(7),
            other => WORegisterMsg::Internal(other),
        }
    }
}

struct AdapterObs<'a> {
    cov: &'a mut Cov,
    adapter: &'static str,
    sys: &'a SysDesc,
    sys_hash: u64,
    positions: &'a [u8],
}
impl<'a> Observer for AdapterObs<'a> {
    fn transition(&mut self, from: &RState, a: &RAct, to: Option<&RState>) {
        self.cov.eval();
        if to.is_none() {
            return;
        }
        let actor = match a {
            RAct::Deliver(_, d, _) => Some(*d),
            RAct::Timeout(i, _) | RAct::Select(i, _, _) => Some(*i),
            _ => None,
        };
        let Some(i) = actor else { return };
        let pos = self.positions.get(i).copied().unwrap_or(0);
        self.cov.label(&format!("{}/{}", self.adapter, act_kind(a)));
        self.cov.label(&format!("{}/position{}", self.adapter, pos));
        let labels = classify_transition(self.sys, from, a, to);
        if matches!(a, RAct::Timeout(..) | RAct::Select(..)) || labels.contains(&"multi_command_multi_kind") || labels.contains(&"several_sends") {
            self.cov.nontrivial(&(self.adapter, self.sys_hash, from, a));
            if self.cov.wants_sample() && self.cov.evaluations % 41 == 0 {
                self.cov.sample(json!({"adapter": self.adapter, "position": pos, "state": format!("{:?}", from), "action": format!("{:?}", a), "successor": format!("{:?}", to)}));
            }
        }
    }
}

#[derive(Clone, Debug, Serialize, Deserialize, PartialEq, Eq, Hash)]
pub struct AdapterCase {
    pub sys: SysDesc,
    /// 0 Choice<A,Never>, 1 choice![A,B], 2 choice![A,B,C], 3 RegisterActor::Server, 4 WORegisterActor::Server
    pub adapter: u8,
    pub positions: Vec<u8>,
}

fn adapter_params() -> SysParams {
    let mut p = SysParams::general();
    p.w = [3, 3, 1, 3, 1];
    p
}

pub struct Adapters;
impl SubCheck for Adapters {
    fn fuzzable(&self) -> bool {
        true
    }
    type Case = AdapterCase;
    fn name(&self) -> &'static str {
        "wrapped_system_is_bisimilar"
    }
    fn cases(&self, tier: Tier) -> u32 {
        tier.pick(4000, 50000)
    }
    fn strategy(&self, _tier: Tier) -> BoxedStrategy<AdapterCase> {
        (sys_strategy(adapter_params()), 0u8..5, proptest::collection::vec(0u8..3, 3))
            .prop_map(|(sys, adapter, positions)| AdapterCase { sys, adapter, positions })
            .boxed()
    }
    fn check(&self, c: &AdapterCase, cov: &mut Cov) -> Result<(), Fail> {
        let sys = &c.sys;
        let pos = |i: usize, max: u8| c.positions.get(i).copied().unwrap_or(0).min(max);
        let sys_hash = hash_of(sys);
        let positions: Vec<u8> = (0..sys.n()).map(|i| match c.adapter {
            0 => 0,
            1 => pos(i, 1),
            2 => pos(i, 2),
            _ => 0,
        }).collect();
        macro_rules! run {
            ($name:expr, $model:expr, $unwrap:expr) => {{
                let mut obs = AdapterObs { cov, adapter: $name, sys, sys_hash, positions: &positions };
                explore_diff(&$model, sys, &$unwrap, 300, &mut obs).map_err(|f| Fail::new(format!("c15/{}/{}", $name, f.sig), format!("wrapped in {}: {}", $name, f.detail)))?;
            }};
        }
        match c.adapter {
            0 => {
                let m = sys.wrapped_model::<u8, Ch1>(&|_, t| Choice::new(A0::new(t)));
                run!("choice1", m, |s: &Choice<u8, Never>| *s.get());
            }
            1 => {
                let m = sys.wrapped_model::<u8, Ch2>(&|i, t| if pos(i, 1) == 0 { Choice::new(A0::new(t)) } else { Choice::new(A1::new(t)).or() });
                run!("choice2", m, |s: &Choice<u8, Choice<u8, Never>>| match s {
                    Choice::L(x) => *x,
                    Choice::R(r) => *r.get(),
                });
            }
            2 => {
                let m = sys.wrapped_model::<u8, Ch3>(&|i, t| match pos(i, 2) {
                    0 => Choice::new(A0::new(t)),
                    1 => Choice::new(A1::new(t)).or(),
                    _ => Choice::new(A2::new(t)).or().or(),
                });
                run!("choice3", m, |s: &Choice<u8, Choice<u8, Choice<u8, Never>>>| match s {
                    Choice::L(x) => *x,
                    Choice::R(Choice::L(x)) => *x,
                    Choice::R(Choice::R(r)) => *r.get(),
                });
            }
            3 => {
                type M = RegisterMsg<u64, char, u8>;
                let m = sys.wrapped_model::<M, RegisterActor<TG<M, 0>>>(&|_, t| RegisterActor::Server(TG::new(t)));
                run!("register_server", m, |s: &RegisterActorState<u8, u64>| match s {
                    RegisterActorState::Server(x) => *x,
                    _ => 255,
                });
            }
            _ => {
                type M = WORegisterMsg<u64, char, u8>;
                let m = sys.wrapped_model::<M, WORegisterActor<TG<M, 0>>>(&|_, t| WORegisterActor::Server(TG::new(t)));
                run!("wo_register_server", m, |s: &WORegisterActorState<u8, u64>| match s {
                    WORegisterActorState::Server(x) => *x,
                    _ => 255,
                });
            }
        }
        Ok(())
    }
    fn mandatory(&self) -> Vec<&'static str> {
        let mut v = vec![];
        for a in ["choice1", "choice2", "choice3", "register_server", "wo_register_server"] {
            for k in ["deliver", "timeout", "select_random"] {
                v.push(Box::leak(format!("{}/{}", a, k).into_boxed_str()) as &'static str);
            }
        }
        v.extend(["choice2/position0", "choice2/position1", "choice3/position0", "choice3/position1", "choice3/position2"]);
        v
    }
}

// ---------------------------------------------------------------------------------------------
// Handler level: the adapter's handler next to the wrapped actor's handler
// ---------------------------------------------------------------------------------------------

#[derive(Clone, Debug, Serialize, Deserialize, PartialEq, Eq, Hash)]
pub struct HandlerCase {
    /// raw (not normalised) tables: a reaction may name the current state as new state, i.e. the
    /// handler touches its state without changing it
    pub tables: Tables,
    pub adapter: u8,
    pub position: u8,
    pub state: u8,
    /// 0 start, 1 message, 2 timeout, 3 random
    pub event: u8,
    pub arg: u8,
    pub src: usize,
}

/// (state was touched, resulting state, commands)
type Outcome = (bool, u8, String);

fn call<A: Actor<Timer = u8, Random = u8>>(a: &A, st: &A::State, ev: u8, arg: u8, src: usize, msg: A::Msg, unwrap: &dyn Fn(&A::State) -> u8) -> Outcome {
    let mut o = Out::new();
    let mut cow = std::borrow::Cow::Borrowed(st);
    match ev {
        1 => a.on_msg(Id::from(0), &mut cow, Id::from(src), msg, &mut o),
        2 => a.on_timeout(Id::from(0), &mut cow, &(arg % NT), &mut o),
        _ => a.on_random(Id::from(0), &mut cow, &(arg % NR), &mut o),
    }
    (matches!(cow, std::borrow::Cow::Owned(_)), unwrap(&cow), format!("{:?}", o))
}
fn start<A: Actor<Timer = u8, Random = u8>>(a: &A, unwrap: &dyn Fn(&A::State) -> u8) -> Outcome {
    let mut o = Out::new();
    let st = a.on_start(Id::from(0), &mut o);
    (true, unwrap(&st), format!("{:?}", o))
}

pub struct HandlerLevel;
impl SubCheck for HandlerLevel {
    fn fuzzable(&self) -> bool {
        true
    }
    type Case = HandlerCase;
    fn name(&self) -> &'static str {
        "handler_level_transparency"
    }
    fn cases(&self, tier: Tier) -> u32 {
        tier.pick(200000, 3000000)
    }
    fn strategy(&self, _tier: Tier) -> BoxedStrategy<HandlerCase> {
        let p = adapter_params();
        // un-normalised tables
        let raw = {
            let cell = |p: &SysParams| proptest::option::weighted(0.8, reaction_strategy(2, p));
            let tab = |rows: u8, cols: u8, p: &SysParams| proptest::collection::vec(proptest::collection::vec(cell(p), cols as usize), rows as usize);
            ((0..NS, proptest::collection::vec(cmd_strategy(2, p.w), 0..=2)), tab(NS, NM, &p), tab(NS, NT, &p), tab(NS, NR, &p)).prop_map(|(start, msg, timeout, random)| Tables { start, msg, timeout, random })
        };
        (raw, 0u8..5, 0u8..3, 0..NS, 0u8..4, any::<u8>(), 0usize..3)
            .prop_map(|(tables, adapter, position, state, event, arg, src)| HandlerCase { tables, adapter, position, state, event, arg, src })
            .boxed()
    }
    fn check(&self, c: &HandlerCase, cov: &mut Cov) -> Result<(), Fail> {
        let t = Arc::new(c.tables.clone());
        let m = c.arg % NM;
        cov.eval();
        macro_rules! compare {
            ($name:expr, $M:ty, $inner:expr, $wrapper:expr, $wstate:expr, $unwrap:expr) => {{
                let inner = $inner;
                let wrapper = $wrapper;
                let (want, got) = if c.event == 0 {
                    (start(&inner, &|s: &u8| *s), start(&wrapper, &$unwrap))
                } else {
                    (call(&inner, &c.state, c.event, c.arg, c.src, <$M as MsgCodec>::from_u8(m), &|s: &u8| *s), call(&wrapper, &$wstate, c.event, c.arg, c.src, <$M as MsgCodec>::from_u8(m), &$unwrap))
                };
                let ev = ["on_start", "on_msg", "on_timeout", "on_random"][c.event as usize % 4];
                ensure!(got.1 == want.1, format!("c15/{}/{}/state-differs", $name, ev), "{} through {}: state {} -> {} when wrapped, {} when bare", ev, $name, c.state, got.1, want.1);
                ensure!(got.2 == want.2, format!("c15/{}/{}/commands-differ", $name, ev), "{} through {}: commands {} when wrapped, {} when bare", ev, $name, got.2, want.2);
                ensure!(got.0 == want.0, format!("c15/{}/{}/state-ownership-differs", $name, ev), "{} through {} in state {}: the wrapped actor {} its state (result {}), the adapter reports {}", ev, $name, c.state, if want.0 { "touched" } else { "did not touch" }, want.1, if got.0 { "a touched state" } else { "an untouched state" });
                cov.label(&format!("{}/{}", $name, ev));
                if c.event != 0 && want.0 && want.1 == c.state {
                    cov.label("touched_but_equal");
                }
                if c.event >= 2 || (want.0 && want.1 == c.state) {
                    cov.nontrivial(c);
                    if cov.wants_sample() {
                        cov.sample(json!({"adapter": $name, "event": ev, "state": c.state, "arg": c.arg, "touched": want.0, "result_state": want.1, "commands": want.2}));
                    }
                }
            }};
        }
        match c.adapter {
            0 => compare!("choice1", u8, A0::new(t.clone()), Choice::<A0, Never>::new(A0::new(t.clone())), Choice::<u8, Never>::new(c.state), |s: &Choice<u8, Never>| *s.get()),
            1 => {
                if c.position % 2 == 0 {
                    compare!("choice2", u8, A0::new(t.clone()), { let w: Ch2 = Choice::new(A0::new(t.clone())); w }, { let s: Choice<u8, Choice<u8, Never>> = Choice::new(c.state); s }, |s: &Choice<u8, Choice<u8, Never>>| match s {
                        Choice::L(x) => *x,
                        Choice::R(r) => *r.get(),
                    })
                } else {
                    compare!("choice2", u8, A1::new(t.clone()), { let w: Ch2 = Choice::new(A1::new(t.clone())).or(); w }, { let s: Choice<u8, Choice<u8, Never>> = Choice::new(c.state).or(); s }, |s: &Choice<u8, Choice<u8, Never>>| match s {
                        Choice::L(x) => *x,
                        Choice::R(r) => *r.get(),
                    })
                }
            }
            2 => {
                let un = |s: &Choice<u8, Choice<u8, Choice<u8, Never>>>| match s {
                    Choice::L(x) => *x,
                    Choice::R(Choice::L(x)) => *x,
                    Choice::R(Choice::R(r)) => *r.get(),
                };
                match c.position % 3 {
                    0 => compare!("choice3", u8, A0::new(t.clone()), { let w: Ch3 = Choice::new(A0::new(t.clone())); w }, { let s: Choice<u8, Choice<u8, Choice<u8, Never>>> = Choice::new(c.state); s }, un),
                    1 => compare!("choice3", u8, A1::new(t.clone()), { let w: Ch3 = Choice::new(A1::new(t.clone())).or(); w }, { let s: Choice<u8, Choice<u8, Choice<u8, Never>>> = Choice::new(c.state).or(); s }, un),
                    _ => compare!("choice3", u8, A2::new(t.clone()), { let w: Ch3 = Choice::new(A2::new(t.clone())).or().or(); w }, { let s: Choice<u8, Choice<u8, Choice<u8, Never>>> = Choice::new(c.state).or().or(); s }, un),
                }
            }
            3 => {
                type M = RegisterMsg<u64, char, u8>;
                compare!("register_server", M, TG::<M, 0>::new(t.clone()), RegisterActor::Server(TG::<M, 0>::new(t.clone())), RegisterActorState::<u8, u64>::Server(c.state), |s: &RegisterActorState<u8, u64>| match s {
                    RegisterActorState::Server(x) => *x,
                    _ => 255,
                })
            }
            _ => {
                type M = WORegisterMsg<u64, char, u8>;
                compare!("wo_register_server", M, TG::<M, 0>::new(t.clone()), WORegisterActor::Server(TG::<M, 0>::new(t.clone())), WORegisterActorState::<u8, u64>::Server(c.state), |s: &WORegisterActorState<u8, u64>| match s {
                    WORegisterActorState::Server(x) => *x,
                    _ => 255,
                })
            }
        }
        Ok(())
    }
    fn mandatory(&self) -> Vec<&'static str> {
        let mut v = vec!["touched_but_equal"];
        for a in ["choice1", "choice2", "choice3", "register_server", "wo_register_server"] {
            for k in ["on_start", "on_msg", "on_timeout", "on_random"] {
                v.push(Box::leak(format!("{}/{}", a, k).into_boxed_str()) as &'static str);
            }
        }
        v
    }
}

// ---------------------------------------------------------------------------------------------
// The scripted Vec client
// ---------------------------------------------------------------------------------------------

#[derive(Clone, Debug, Serialize, Deserialize, PartialEq, Eq, Hash)]
pub struct VecCase {
    pub scripts: Vec<Vec<(usize, u8)>>,
    pub net: NetKind,
    pub lossy: bool,
}

type VHist = Vec<(bool, usize, usize, u8)>;

pub struct VecClient;
impl SubCheck for VecClient {
    fn fuzzable(&self) -> bool {
        true
    }
    type Case = VecCase;
    fn name(&self) -> &'static str {
        "scripted_vec_client"
    }
    fn cases(&self, tier: Tier) -> u32 {
        tier.pick(5000, 60000)
    }
    fn strategy(&self, _tier: Tier) -> BoxedStrategy<VecCase> {
        (1usize..=3)
            .prop_flat_map(|n| (proptest::collection::vec(proptest::collection::vec((0..=n, 0u8..3), 0..4), n), prop_oneof![Just(NetKind::Ordered), Just(NetKind::NonDup), Just(NetKind::Dup)], any::<bool>()))
            .prop_map(|(scripts, net, lossy)| VecCase { scripts, net, lossy })
            .boxed()
    }
    fn check(&self, c: &VecCase, cov: &mut Cov) -> Result<(), Fail> {
        let n = c.scripts.len();
        let actors: Vec<Vec<(Id, u8)>> = c.scripts.iter().map(|s| s.iter().map(|(d, m)| (Id::from(*d), *m)).collect()).collect();
        let net: Network<u8> = match c.net {
            NetKind::Ordered => Network::new_ordered([]),
            NetKind::NonDup => Network::new_unordered_nonduplicating([]),
            NetKind::Dup => Network::new_unordered_duplicating([]),
        };
        let model: ActorModel<Vec<(Id, u8)>, (), VHist> = ActorModel::new((), Vec::new())
            .actors(actors)
            .init_network(net)
            .lossy_network(if c.lossy { LossyNetwork::Yes } else { LossyNetwork::No })
            .record_msg_in(|_, h, e| {
                let mut h = h.clone();
                h.push((true, e.src.into(), e.dst.into(), *e.msg));
                Some(h)
            })
            .record_msg_out(|_, h, e| {
                let mut h = h.clone();
                h.push((false, e.src.into(), e.dst.into(), *e.msg));
                Some(h)
            });
        // explore every execution (finite: scripts are finite and exhausted clients ignore messages)
        let mut seen = HashSet::new();
        let mut queue = VecDeque::new();
        for s in model.init_states() {
            queue.push_back(s);
        }
        let mut states = 0u64;
        let mut max_received = 0usize;
        while let Some(s) = queue.pop_front() {
            let key = (s.actor_states.iter().map(|a| **a).collect::<Vec<usize>>(), s.history.clone(), format!("{:?}", s.network));
            if !seen.insert(key) {
                continue;
            }
            states += 1;
            if states > 20000 {
                cov.label("capped");
                break;
            }
            cov.eval();
            // oracle: each client has sent exactly its script prefix of length min(len, 1 + #received), in order
            for i in 0..n {
                let received = s.history.iter().filter(|h| h.0 && h.2 == i).count();
                max_received = max_received.max(received);
                let want_len = c.scripts[i].len().min(1 + received);
                let sent: Vec<(usize, u8)> = s.history.iter().filter(|h| !h.0 && h.1 == i).map(|h| (h.2, h.3)).collect();
                let want: Vec<(usize, u8)> = c.scripts[i][..want_len].to_vec();
                ensure!(sent == want, "c15/vec-client/sent-messages-are-not-the-script-prefix", "client {} with script {:?} received {} message(s) and has sent {:?}; expected {:?} (history {:?})", i, c.scripts[i], received, sent, want, s.history);
                ensure!(*s.actor_states[i] == want_len, "c15/vec-client/state-is-not-the-number-of-messages-sent", "client {} state {} but {} messages sent", i, s.actor_states[i], want_len);
            }
            let mut acts = vec![];
            model.actions(&s, &mut acts);
            for a in acts {
                if let Some(nx) = model.next_state(&s, a) {
                    queue.push_back(nx);
                }
            }
        }
        cov.label(match c.net {
            NetKind::Ordered => "ordered",
            NetKind::NonDup => "nondup",
            NetKind::Dup => "dup",
        });
        if max_received >= 2 && c.scripts.iter().any(|s| s.len() >= 3) {
            cov.label("script_len>=3_and_2_received");
            cov.nontrivial(c);
            if cov.wants_sample() {
                cov.sample(json!({"scripts": c.scripts, "network": c.net, "lossy": c.lossy, "states_explored": states}));
            }
        }
        let _ = BTreeMap::<u8, u8>::new();
        Ok(())
    }
    fn mandatory(&self) -> Vec<&'static str> {
        vec!["ordered", "nondup", "dup", "script_len>=3_and_2_received"]
    }
}

pub fn spec() -> PropSpec {
    let _ = |x: u8| -> Result<(), Fail> { fail!("x", "{}", x) };
    let _ = Arc::new(0u8);
    PropSpec {
        id: "C15",
        level: "exploration",
        rule: "Cases = generated table-driven actor systems using messages, timers and random choices, with every actor wrapped in Choice<A,Never>, choice![A,B], choice![A,B,C] (each actor in a generated position) or as RegisterActor::Server / WORegisterActor::Server (the inner actor speaking RegisterMsg / WORegisterMsg through a bijection with the small alphabet). Oracle: the projection that unwraps every actor state must be a bisimulation onto the reference interpreter of the *unwrapped* system: initial state, enabled-action multisets, None-ness and every successor component for every reachable (state, action). Vec client: all executions of systems of scripted Vec clients on three networks x lossy; at every state each client has sent exactly its script prefix of length min(len, 1 + #messages received), in order. One evaluation = one (state, action) pair / one visited state. Non-trivial = transitions caused by Timeout or SelectRandom or handlers with >= 2 commands; scripts of >= 3 with >= 2 received. Distinct by hash of (adapter, system, state, action).",
        assumptions: vec!["the reference interpreter agrees with the unwrapped actors (checked by C06 on the same generator)"],
        subs: vec![Box::new(Adapters), Box::new(HandlerLevel), Box::new(VecClient)],
    }
}
