//! C15 — actor adapters are transparent to the actor they wrap.

use crate::engine::*;
use crate::refsys::*;
use crate::{ensure, fail};
use choice::{Choice, Never};
use proptest::prelude::*;
use serde::{Deserialize, Serialize};
use serde_json::json;
use stateright::actor::register::{RegisterActor, RegisterActorState, RegisterMsg};
use stateright::actor::write_once_register::{WORegisterActor, WORegisterActorState, WORegisterMsg};
use stateright::actor::*;
use stateright::Model;
use std::collections::{BTreeMap, HashSet, VecDeque};
use std::sync::Arc;

type A0 = TG<u8, 0>;
type A1 = TG<u8, 1>;
type A2 = TG<u8, 2>;
type Ch1 = Choice<A0, Never>;
type Ch2 = Choice<A0, Choice<A1, Never>>;
type Ch3 = Choice<A0, Choice<A1, Choice<A2, Never>>>;

impl MsgCodec for RegisterMsg<u64, char, u8> {
    fn to_u8(&self) -> u8 {
        match self {
            RegisterMsg::Internal(m) => *m,
            RegisterMsg::Put(_, _) => 1,
            RegisterMsg::Get(_) => 2,
            RegisterMsg::PutOk(_) => 3,
            RegisterMsg::GetOk(_, _) => 3,
        }
    }
    fn from_u8(m: u8) -> Self {
        match m {
            1 => RegisterMsg::Put(7, 'x'),
            2 => RegisterMsg::Get(9),
            3 => RegisterMsg::PutOk(7),
            other => RegisterMsg::Internal(other),
        }
    }
}
impl MsgCodec for WORegisterMsg<u64, char, u8> {
    fn to_u8(&self) -> u8 {
        match self {
            WORegisterMsg::Internal(m) => *m,
            WORegisterMsg::Put(_, _) => 1,
            WORegisterMsg::Get(_) => 2,
            WORegisterMsg::PutFail(_) => 3,
            WORegisterMsg::PutOk(_) => 3,
            WORegisterMsg::GetOk(_, _) => 3,
        }
    }
    fn from_u8(m: u8) -> Self {
        match m {
            1 => WORegisterMsg::Put(7, 'x'),
            2 => WORegisterMsg::Get(9),
            3 => WORegisterMsg::PutFail(7),
            other => WORegisterMsg::Internal(other),
        }
    }
}

struct AdapterObs<'a> {
    cov: &'a mut Cov,
    adapter: &'static str,
    sys: &'a SysDesc,
    sys_hash: u64,
    positions: &'a [u8],
}
impl<'a> Observer for AdapterObs<'a> {
    fn transition(&mut self, from: &RState, a: &RAct, to: Option<&RState>) {
        self.cov.eval();
        if to.is_none() {
            return;
        }
        let actor = match a {
            RAct::Deliver(_, d, _) => Some(*d),
            RAct::Timeout(i, _) | RAct::Select(i, _, _) => Some(*i),
            _ => None,
        };
        let Some(i) = actor else { return };
        let pos = self.positions.get(i).copied().unwrap_or(0);
        self.cov.label(&format!("{}/{}", self.adapter, act_kind(a)));
        self.cov.label(&format!("{}/position{}", self.adapter, pos));
        let labels = classify_transition(self.sys, from, a, to);
        if matches!(a, RAct::Timeout(..) | RAct::Select(..)) || labels.contains(&"multi_command_multi_kind") || labels.contains(&"several_sends") {
            self.cov.nontrivial(&(self.adapter, self.sys_hash, from, a));
            if self.cov.wants_sample() && self.cov.evaluations % 41 == 0 {
                self.cov.sample(json!({"adapter": self.adapter, "position": pos, "state": format!("{:?}", from), "action": format!("{:?}", a), "successor": format!("{:?}", to)}));
            }
        }
    }
}

#[derive(Clone, Debug, Serialize, Deserialize, PartialEq, Eq, Hash)]
pub struct AdapterCase {
    pub sys: SysDesc,
    /// 0 Choice<A,Never>, 1 choice![A,B], 2 choice![A,B,C], 3 RegisterActor::Server, 4 WORegisterActor::Server
    pub adapter: u8,
    pub positions: Vec<u8>,
}

fn adapter_params() -> SysParams {
    let mut p = SysParams::general();
    p.w = [3, 3, 1, 3, 1];
    p
}

pub struct Adapters;
impl SubCheck for Adapters {
    type Case = AdapterCase;
    fn name(&self) -> &'static str {
        "wrapped_system_is_bisimilar"
    }
    fn cases(&self, tier: Tier) -> u32 {
        tier.pick(1000, 20000)
    }
    fn strategy(&self, _tier: Tier) -> BoxedStrategy<AdapterCase> {
        (sys_strategy(adapter_params()), 0u8..5, proptest::collection::vec(0u8..3, 3))
            .prop_map(|(sys, adapter, positions)| AdapterCase { sys, adapter, positions })
            .boxed()
    }
    fn check(&self, c: &AdapterCase, cov: &mut Cov) -> Result<(), Fail> {
        let sys = &c.sys;
        let pos = |i: usize, max: u8| c.positions.get(i).copied().unwrap_or(0).min(max);
        let sys_hash = hash_of(sys);
        let positions: Vec<u8> = (0..sys.n()).map(|i| match c.adapter {
            0 => 0,
            1 => pos(i, 1),
            2 => pos(i, 2),
            _ => 0,
        }).collect();
        macro_rules! run {
            ($name:expr, $model:expr, $unwrap:expr) => {{
                let mut obs = AdapterObs { cov, adapter: $name, sys, sys_hash, positions: &positions };
                explore_diff(&$model, sys, &$unwrap, 300, &mut obs).map_err(|f| Fail::new(format!("c15/{}/{}", $name, f.sig), format!("wrapped in {}: {}", $name, f.detail)))?;
            }};
        }
        match c.adapter {
            0 => {
                let m = sys.wrapped_model::<u8, Ch1>(&|_, t| Choice::new(A0::new(t)));
                run!("choice1", m, |s: &Choice<u8, Never>| *s.get());
            }
            1 => {
                let m = sys.wrapped_model::<u8, Ch2>(&|i, t| if pos(i, 1) == 0 { Choice::new(A0::new(t)) } else { Choice::new(A1::new(t)).or() });
                run!("choice2", m, |s: &Choice<u8, Choice<u8, Never>>| match s {
                    Choice::L(x) => *x,
                    Choice::R(r) => *r.get(),
                });
            }
            2 => {
                let m = sys.wrapped_model::<u8, Ch3>(&|i, t| match pos(i, 2) {
                    0 => Choice::new(A0::new(t)),
                    1 => Choice::new(A1::new(t)).or(),
                    _ => Choice::new(A2::new(t)).or().or(),
                });
                run!("choice3", m, |s: &Choice<u8, Choice<u8, Choice<u8, Never>>>| match s {
                    Choice::L(x) => *x,
                    Choice::R(Choice::L(x)) => *x,
                    Choice::R(Choice::R(r)) => *r.get(),
                });
            }
            3 => {
                type M = RegisterMsg<u64, char, u8>;
                let m = sys.wrapped_model::<M, RegisterActor<TG<M, 0>>>(&|_, t| RegisterActor::Server(TG::new(t)));
                run!("register_server", m, |s: &RegisterActorState<u8, u64>| match s {
                    RegisterActorState::Server(x) => *x,
                    _ => 255,
                });
            }
            _ => {
                type M = WORegisterMsg<u64, char, u8>;
                let m = sys.wrapped_model::<M, WORegisterActor<TG<M, 0>>>(&|_, t| WORegisterActor::Server(TG::new(t)));
                run!("wo_register_server", m, |s: &WORegisterActorState<u8, u64>| match s {
                    WORegisterActorState::Server(x) => *x,
                    _ => 255,
                });
            }
        }
        Ok(())
    }
    fn mandatory(&self) -> Vec<&'static str> {
        let mut v = vec![];
        for a in ["choice1", "choice2", "choice3", "register_server", "wo_register_server"] {
            for k in ["deliver", "timeout", "select_random"] {
                v.push(Box::leak(format!("{}/{}", a, k).into_boxed_str()) as &'static str);
            }
        }
        v.extend(["choice2/position0", "choice2/position1", "choice3/position0", "choice3/position1", "choice3/position2"]);
        v
    }
}

// ---------------------------------------------------------------------------------------------
// The scripted Vec client
// ---------------------------------------------------------------------------------------------

#[derive(Clone, Debug, Serialize, Deserialize, PartialEq, Eq, Hash)]
pub struct VecCase {
    pub scripts: Vec<Vec<(usize, u8)>>,
    pub net: NetKind,
    pub lossy: bool,
}

type VHist = Vec<(bool, usize, usize, u8)>;

pub struct VecClient;
impl SubCheck for VecClient {
    type Case = VecCase;
    fn name(&self) -> &'static str {
        "scripted_vec_client"
    }
    fn cases(&self, tier: Tier) -> u32 {
        tier.pick(1500, 30000)
    }
    fn strategy(&self, _tier: Tier) -> BoxedStrategy<VecCase> {
        (1usize..=3)
            .prop_flat_map(|n| (proptest::collection::vec(proptest::collection::vec((0..=n, 0u8..3), 0..4), n), prop_oneof![Just(NetKind::Ordered), Just(NetKind::NonDup), Just(NetKind::Dup)], any::<bool>()))
            .prop_map(|(scripts, net, lossy)| VecCase { scripts, net, lossy })
            .boxed()
    }
    fn check(&self, c: &VecCase, cov: &mut Cov) -> Result<(), Fail> {
        let n = c.scripts.len();
        let actors: Vec<Vec<(Id, u8)>> = c.scripts.iter().map(|s| s.iter().map(|(d, m)| (Id::from(*d), *m)).collect()).collect();
        let net: Network<u8> = match c.net {
            NetKind::Ordered => Network::new_ordered([]),
            NetKind::NonDup => Network::new_unordered_nonduplicating([]),
            NetKind::Dup => Network::new_unordered_duplicating([]),
        };
        let model: ActorModel<Vec<(Id, u8)>, (), VHist> = ActorModel::new((), Vec::new())
            .actors(actors)
            .init_network(net)
            .lossy_network(if c.lossy { LossyNetwork::Yes } else { LossyNetwork::No })
            .record_msg_in(|_, h, e| {
                let mut h = h.clone();
                h.push((true, e.src.into(), e.dst.into(), *e.msg));
                Some(h)
            })
            .record_msg_out(|_, h, e| {
                let mut h = h.clone();
                h.push((false, e.src.into(), e.dst.into(), *e.msg));
                Some(h)
            });
        // explore every execution (finite: scripts are finite and exhausted clients ignore messages)
        let mut seen = HashSet::new();
        let mut queue = VecDeque::new();
        for s in model.init_states() {
            queue.push_back(s);
        }
        let mut states = 0u64;
        let mut max_received = 0usize;
        while let Some(s) = queue.pop_front() {
            let key = (s.actor_states.iter().map(|a| **a).collect::<Vec<usize>>(), s.history.clone(), format!("{:?}", s.network));
            if !seen.insert(key) {
                continue;
            }
            states += 1;
            if states > 20000 {
                cov.label("capped");
                break;
            }
            cov.eval();
            // oracle: each client has sent exactly its script prefix of length min(len, 1 + #received), in order
            for i in 0..n {
                let received = s.history.iter().filter(|h| h.0 && h.2 == i).count();
                max_received = max_received.max(received);
                let want_len = c.scripts[i].len().min(1 + received);
                let sent: Vec<(usize, u8)> = s.history.iter().filter(|h| !h.0 && h.1 == i).map(|h| (h.2, h.3)).collect();
                let want: Vec<(usize, u8)> = c.scripts[i][..want_len].to_vec();
                ensure!(sent == want, "c15/vec-client/sent-messages-are-not-the-script-prefix", "client {} with script {:?} received {} message(s) and has sent {:?}; expected {:?} (history {:?})", i, c.scripts[i], received, sent, want, s.history);
                ensure!(*s.actor_states[i] == want_len, "c15/vec-client/state-is-not-the-number-of-messages-sent", "client {} state {} but {} messages sent", i, s.actor_states[i], want_len);
            }
            let mut acts = vec![];
            model.actions(&s, &mut acts);
            for a in acts {
                if let Some(nx) = model.next_state(&s, a) {
                    queue.push_back(nx);
                }
            }
        }
        cov.label(match c.net {
            NetKind::Ordered => "ordered",
            NetKind::NonDup => "nondup",
            NetKind::Dup => "dup",
        });
        if max_received >= 2 && c.scripts.iter().any(|s| s.len() >= 3) {
            cov.label("script_len>=3_and_2_received");
            cov.nontrivial(c);
            if cov.wants_sample() {
                cov.sample(json!({"scripts": c.scripts, "network": c.net, "lossy": c.lossy, "states_explored": states}));
            }
        }
        let _ = BTreeMap::<u8, u8>::new();
        Ok(())
    }
    fn mandatory(&self) -> Vec<&'static str> {
        vec!["ordered", "nondup", "dup", "script_len>=3_and_2_received"]
    }
}

pub fn spec() -> PropSpec {
    let _ = |x: u8| -> Result<(), Fail> { fail!("x", "{}", x) };
    let _ = Arc::new(0u8);
    PropSpec {
        id: "C15",
        level: "exploration",
        rule: "Cases = generated table-driven actor systems using messages, timers and random choices, with every actor wrapped in Choice<A,Never>, choice![A,B], choice![A,B,C] (each actor in a generated position) or as RegisterActor::Server / WORegisterActor::Server (the inner actor speaking RegisterMsg / WORegisterMsg through a bijection with the small alphabet). Oracle: the projection that unwraps every actor state must be a bisimulation onto the reference interpreter of the *unwrapped* system: initial state, enabled-action multisets, None-ness and every successor component for every reachable (state, action). Vec client: all executions of systems of scripted Vec clients on three networks x lossy; at every state each client has sent exactly its script prefix of length min(len, 1 + #messages received), in order. One evaluation = one (state, action) pair / one visited state. Non-trivial = transitions caused by Timeout or SelectRandom or handlers with >= 2 commands; scripts of >= 3 with >= 2 received. Distinct by hash of (adapter, system, state, action).",
        assumptions: vec!["the reference interpreter agrees with the unwrapped actors (checked by C06 on the same generator)"],
        subs: vec![Box::new(Adapters), Box::new(VecClient)],
    }
}
