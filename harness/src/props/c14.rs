//! C14 — the sequential-consistency tester decides sequential consistency exactly; lin => sc;
//! testers are plain values (clone discipline).

use crate::engine::*;
use crate::hist::*;
use crate::props::c08::{dispatch, feed, TesterApi};
use crate::{ensure, fail};
use proptest::prelude::*;
use serde::{Deserialize, Serialize};
use stateright::semantics::{ConsistencyTester, LinearizabilityTester, SequentialConsistencyTester};
use std::fmt::Debug;

pub struct Sc;
impl SubCheck for Sc {
    fn fuzzable(&self) -> bool {
        true
    }
    type Case = HistCase;
    fn name(&self) -> &'static str {
        "sequential_consistency_vs_brute_force"
    }
    fn cases(&self, tier: Tier) -> u32 {
        tier.pick(250000, 3000000)
    }
    fn strategy(&self, tier: Tier) -> BoxedStrategy<HistCase> {
        hist_strategy(tier.pick(18, 22))
    }
    fn check(&self, c: &HistCase, cov: &mut Cov) -> Result<(), Fail> {
        dispatch::<()>(c, false, cov, "c14")
    }
    fn mandatory(&self) -> Vec<&'static str> {
        vec!["consistent", "inconsistent", "in_flight_needed", "ill_formed", "has_in_flight", "spec_register", "spec_write_once_register", "spec_vec", "spec_generated_table", "spec_nondeterministic_pool"]
    }
}

fn lin_implies_sc<S: Spec>(init: S, c: &HistCase, cov: &mut Cov) -> Result<(), Fail>
where
    S::Op: Clone + Debug + PartialEq,
    S::Ret: Clone + Debug + PartialEq,
{
    let (evs, ill) = build_events(&init, c);
    let mut l = LinearizabilityTester::<u8, S>::new(init.clone());
    let mut s = SequentialConsistencyTester::<u8, S>::new(init.clone());
    feed::<S, _>(&mut l, &evs, false);
    feed::<S, _>(&mut s, &evs, false);
    cov.eval();
    let (lc, sc) = (l.is_consistent(), s.is_consistent());
    ensure!(!lc || sc, "c14/linearizable-history-not-sequentially-consistent", "the linearizability tester accepts {:?} but the sequential-consistency tester rejects it", evs);
    cov.label(match (lc, sc) {
        (true, true) => "both_accept",
        (false, true) => "sc_only",
        (false, false) => "both_reject",
        _ => "impossible",
    });
    if ill.is_none() && !lc && sc {
        cov.nontrivial(&("lin=>sc", c));
    }
    Ok(())
}

pub struct LinImpliesSc;
impl SubCheck for LinImpliesSc {
    fn fuzzable(&self) -> bool {
        true
    }
    type Case = HistCase;
    fn name(&self) -> &'static str {
        "linearizable_implies_sequentially_consistent"
    }
    fn cases(&self, tier: Tier) -> u32 {
        tier.pick(200000, 2000000)
    }
    fn strategy(&self, _tier: Tier) -> BoxedStrategy<HistCase> {
        hist_strategy(18)
    }
    fn check(&self, c: &HistCase, cov: &mut Cov) -> Result<(), Fail> {
        match spec_of(c) {
            AnySpec::Reg(s) => lin_implies_sc(s, c, cov),
            AnySpec::Wo(s) => lin_implies_sc(s, c, cov),
            AnySpec::Vec(s) => lin_implies_sc(s, c, cov),
            AnySpec::Table(s) => lin_implies_sc(s, c, cov),
            AnySpec::Pool(s) => lin_implies_sc(s, c, cov),
        }
    }
    fn mandatory(&self) -> Vec<&'static str> {
        vec!["both_accept", "sc_only", "both_reject"]
    }
}

#[derive(Clone, Debug, Serialize, Deserialize, PartialEq, Eq, Hash)]
pub struct CloneCase {
    pub h: HistCase,
    /// split point (raw) and two alternative suffix step lists
    pub split: u8,
    pub suffix_a: Vec<Step>,
    pub suffix_b: Vec<Step>,
    pub lin: bool,
}

fn clone_discipline<S: Spec, T: TesterApi<S>>(init: S, c: &CloneCase, cov: &mut Cov) -> Result<(), Fail>
where
    S::Op: Clone + Debug + PartialEq,
    S::Ret: Clone + Debug + PartialEq,
{
    let (evs, _ill) = build_events(&init, &c.h);
    let k = idx8(c.split, evs.len() + 1);
    let prefix = &evs[..k];
    let mut original = T::make(init.clone());
    feed::<S, T>(&mut original, prefix, false);
    // suffixes: decoded freely (may be ill-formed; that is fine, they go into the clones only)
    let suffix = |steps: &[Step]| -> Vec<Ev<S::Op, S::Ret>> {
        steps.iter().map(|s| if s.c % 2 == 0 { Ev::Inv(s.t % 4, init.dec_op(s.a, s.b)) } else { Ev::Ret(s.t % 4, init.dec_ret(s.a, s.b)) }).collect()
    };
    let mut clone_a = original.clone();
    let mut clone_b = original.clone();
    feed::<S, T>(&mut clone_a, &suffix(&c.suffix_a), false);
    feed::<S, T>(&mut clone_a, &evs[k..], false);
    feed::<S, T>(&mut clone_b, &suffix(&c.suffix_b), false);
    let mut fresh = T::make(init.clone());
    feed::<S, T>(&mut fresh, prefix, false);
    cov.eval();
    ensure!(original == fresh, "c14/clone/original-altered-by-recording-into-clone", "{} tester: after recording different suffixes into two clones the original differs from a fresh tester fed the same prefix {:?}:\n original {:?}\n fresh    {:?}", T::NAME, prefix, original, fresh);
    ensure!(format!("{:?}", original) == format!("{:?}", fresh), "c14/clone/debug-differs", "Debug output of the original differs from a fresh tester");
    ensure!(original.is_consistent() == fresh.is_consistent(), "c14/clone/is_consistent-differs", "is_consistent differs between the original and a fresh tester");
    ensure!(original.serialized() == fresh.serialized(), "c14/clone/serialization-differs", "serialized_history differs between the original and a fresh tester");
    let diverged = clone_a != original || clone_b != original;
    cov.label(T::NAME);
    if diverged {
        cov.label("clone_diverged");
        cov.nontrivial(&(T::NAME, c));
        if cov.wants_sample() {
            cov.sample(serde_json::json!({"tester": T::NAME, "prefix": format!("{:?}", prefix), "suffix_a": format!("{:?}", suffix(&c.suffix_a)), "suffix_b": format!("{:?}", suffix(&c.suffix_b))}));
        }
    }
    Ok(())
}

pub struct CloneDiscipline;
impl SubCheck for CloneDiscipline {
    fn fuzzable(&self) -> bool {
        true
    }
    type Case = CloneCase;
    fn name(&self) -> &'static str {
        "testers_are_plain_values"
    }
    fn cases(&self, tier: Tier) -> u32 {
        tier.pick(150000, 1500000)
    }
    fn strategy(&self, _tier: Tier) -> BoxedStrategy<CloneCase> {
        let step = || (any::<u8>(), any::<u8>(), any::<u8>(), any::<u8>()).prop_map(|(t, a, b, c)| Step { t, a, b, c });
        (hist_strategy(14), any::<u8>(), proptest::collection::vec(step(), 0..5), proptest::collection::vec(step(), 0..5), any::<bool>())
            .prop_map(|(h, split, suffix_a, suffix_b, lin)| CloneCase { h, split, suffix_a, suffix_b, lin })
            .boxed()
    }
    fn check(&self, c: &CloneCase, cov: &mut Cov) -> Result<(), Fail> {
        macro_rules! go {
            ($s:expr, $S:ty) => {
                if c.lin {
                    clone_discipline::<$S, LinearizabilityTester<u8, $S>>($s, c, cov)
                } else {
                    clone_discipline::<$S, SequentialConsistencyTester<u8, $S>>($s, c, cov)
                }
            };
        }
        match spec_of(&c.h) {
            AnySpec::Reg(s) => go!(s, stateright::semantics::register::Register<u8>),
            AnySpec::Wo(s) => go!(s, stateright::semantics::write_once_register::WORegister<u8>),
            AnySpec::Vec(s) => go!(s, Vec<u8>),
            AnySpec::Table(s) => go!(s, TableSpec),
            AnySpec::Pool(s) => go!(s, Pool),
        }
    }
    fn mandatory(&self) -> Vec<&'static str> {
        vec!["lin", "sc", "clone_diverged"]
    }
}

pub fn spec() -> PropSpec {
    let _ = |x: u8| -> Result<(), Fail> { fail!("x", "{}", x) };
    PropSpec {
        id: "C14",
        level: "exploration",
        rule: "Same generated histories and brute-force oracle as C08 without the real-time constraint (sequential consistency: program order only), plus on every history 'accepted by the linearizability tester => accepted by the sequential-consistency tester', plus clone discipline for both testers: feed a prefix, clone twice, record different (possibly ill-formed) suffixes into the clones; the original must still equal (==, Debug, is_consistent, serialized_history) a fresh tester fed the prefix alone. Non-trivial = >= 3 operations on >= 2 threads with an overlapping pair / ill-formed / sequentially consistent but not linearizable / clone actually diverged; distinct by hash of the case.",
        assumptions: vec!["bounded history size (<= ~9 operations, <= 4 threads)"],
        subs: vec![Box::new(Sc), Box::new(LinImpliesSc), Box::new(CloneDiscipline)],
    }
}
