//! C18 — reference objects and the register harness yield well-formed, faithful histories.

use crate::engine::*;
use crate::hist::*;
use crate::{ensure};
use proptest::prelude::*;
use serde::{Deserialize, Serialize};
use serde_json::json;
use stateright::semantics::SequentialSpec;
use std::fmt::Debug;

#[derive(Clone, Debug, Serialize, Deserialize, PartialEq, Eq, Hash)]
pub struct SeqCase {
    pub kind: u8,
    pub init: Vec<u8>,
    /// (op a, op b, mutate?, ret a, ret b)
    pub steps: Vec<(u8, u8, bool, u8, u8)>,
}

fn check_seq<S: Spec>(init: S, c: &SeqCase, cov: &mut Cov, label: &'static str) -> Result<(), Fail>
where
    S::Op: Clone + Debug + PartialEq,
    S::Ret: Clone + Debug + PartialEq,
{
    let mut truth = init.clone();
    let mut seq: Vec<(S::Op, S::Ret)> = vec![];
    let mut all_true = true;
    let mut first_false: Option<usize> = None;
    let mut mutated_effective = false;
    for (i, (a, b, mutate, ra, rb)) in c.steps.iter().enumerate() {
        let op = init.dec_op(*a, *b);
        let mut y = truth.clone();
        let real = y.invoke(&op);
        let offered = if *mutate { init.dec_ret(*ra, *rb) } else { real.clone() };
        let want = real == offered;
        let mut x = truth.clone();
        let got = x.is_valid_step(&op, &offered);
        cov.eval();
        ensure!(got == want, format!("c18/{}/is_valid_step-disagrees-with-invoke", label), "object {:?}: is_valid_step({:?}, {:?}) = {}, but invoke returns {:?}", truth, op, offered, got, real);
        if got {
            ensure!(x == y, format!("c18/{}/is_valid_step-leaves-different-state", label), "object {:?}: after is_valid_step({:?}, {:?}) the object is {:?}, after invoke it is {:?}", truth, op, offered, x, y);
        }
        if !want {
            mutated_effective = true;
            if first_false.is_none() {
                first_false = Some(i);
            }
            all_true = false;
        }
        seq.push((op, offered));
        // the sequence continues from the true state (what invoking from the start gives)
        truth = y;
    }
    // is_valid_history accepts exactly the sequences obtained by invoking from the initial object
    let mut h = init.clone();
    let accepted = h.is_valid_history(seq.clone());
    // oracle: replay with invoke only, stopping at the first mismatch
    let mut o = init.clone();
    let mut want_hist = true;
    for (op, ret) in &seq {
        if &o.invoke(op) != ret {
            want_hist = false;
            break;
        }
    }
    ensure!(accepted == want_hist, format!("c18/{}/is_valid_history-wrong", label), "is_valid_history({:?}) = {} from {:?}, replaying with invoke says {}", seq, accepted, init, want_hist);
    let _ = all_true;
    cov.label(label);
    cov.label(if want_hist { "history_valid" } else { "history_invalid" });
    if c.steps.len() >= 3 && mutated_effective {
        cov.nontrivial(c);
        if cov.wants_sample() {
            cov.sample(json!({"spec": label, "initial": format!("{:?}", init), "sequence": format!("{:?}", seq), "accepted": accepted, "first_wrong_return_at": first_false}));
        }
    }
    Ok(())
}

pub struct RefObjects;
impl SubCheck for RefObjects {
    fn fuzzable(&self) -> bool {
        true
    }
    type Case = SeqCase;
    fn name(&self) -> &'static str {
        "reference_objects"
    }
    fn cases(&self, tier: Tier) -> u32 {
        tier.pick(400000, 5000000)
    }
    fn strategy(&self, _tier: Tier) -> BoxedStrategy<SeqCase> {
        (0u8..3, proptest::collection::vec(0u8..3, 0..3), proptest::collection::vec((any::<u8>(), any::<u8>(), proptest::bool::weighted(0.3), any::<u8>(), any::<u8>()), 0..9))
            .prop_map(|(kind, init, steps)| SeqCase { kind, init, steps })
            .boxed()
    }
    fn check(&self, c: &SeqCase, cov: &mut Cov) -> Result<(), Fail> {
        use stateright::semantics::register::Register;
        use stateright::semantics::write_once_register::WORegister;
        match c.kind % 3 {
            0 => check_seq(Register(c.init.first().copied().unwrap_or(0)), c, cov, "register"),
            1 => check_seq(WORegister(c.init.first().copied()), c, cov, "write_once_register"),
            _ => check_seq(c.init.clone(), c, cov, "vec"),
        }
    }
    fn mandatory(&self) -> Vec<&'static str> {
        vec!["register", "write_once_register", "vec", "history_valid", "history_invalid"]
    }
}

pub fn spec() -> PropSpec {
    PropSpec {
        id: "C18",
        level: "exploration",
        rule: "(a) Generated operation sequences on Register, WORegister and Vec from generated initial objects; at each step the offered return is the true one or a generated other one: is_valid_step(op, ret) must equal (clone.invoke(op) == ret) and, when true, leave the same object state; is_valid_history must accept exactly the sequences whose every return equals what invoking from the initial object gives. (b) Register-harness models built from generated servers (answering each request at most once: immediately, after an internal round trip, or never; possibly wrong values) and the provided clients, with a recording ConsistencyTester as history: per client the log alternates invoke/return with at most one outstanding, the number of invokes equals op_count, request ids are fresh, the logged operations mirror the Put/Get sent and the replies accepted on that path. Non-trivial = (a) >= 3 steps with an effective wrong return; (b) >= 2 clients and >= 1 reply delivered. Distinct by hash of the case.",
        assumptions: vec!["the object state after a *rejected* step is never used by the library and is not compared"],
        subs: vec![Box::new(RefObjects), Box::new(crate::props::c18b::Harness)],
    }
}
