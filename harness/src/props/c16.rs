//! C16 — the ordered reliable link delivers every message exactly once, in order.

use crate::engine::*;
use proptest::prelude::*;
use serde::{Deserialize, Serialize};
use serde_json::json;
use stateright::actor::ordered_reliable_link::{ActorWrapper, MsgWrapper};
use stateright::actor::*;
use stateright::Model;
use std::borrow::Cow;
use std::collections::{HashSet, VecDeque};

/// Signature of the known overtaking defect (F10): a message whose sequencer is below the
/// receiver's last-delivered sequencer for that sender was never handed over.
pub const OVERTAKEN: &str = "c16/overtaken-message-acknowledged-and-discarded";

#[derive(Clone, Debug, Serialize, Deserialize, PartialEq, Eq, Hash)]
pub struct InnerDesc {
    /// messages emitted at start, in order: (destination, value)
    pub script: Vec<(usize, u8)>,
    /// a message value this actor ignores (state-independent no-op)
    pub ignore: Option<u8>,
    /// on being handed `trigger` the actor sends (dst, value) - reverse traffic
    pub reply: Option<(u8, usize, u8)>,
    /// the reply is produced without touching the actor's state (a stateless responder)
    #[serde(default)]
    pub stateless_reply: bool,
}

#[derive(Clone)]
pub struct Inner(pub InnerDesc);

#[derive(Clone, Debug, PartialEq, Eq, Hash)]
pub struct InnerState {
    /// every message handed over: (source, value)
    pub log: Vec<(usize, u8)>,
    /// messages emitted so far, in order: (destination, value)
    pub emitted: Vec<(usize, u8)>,
}

impl Actor for Inner {
    type Msg = u8;
    type State = InnerState;
    type Timer = ();
    type Random = ();
    fn on_start(&self, _: Id, o: &mut Out<Self>) -> InnerState {
        for (d, m) in &self.0.script {
            o.send(Id::from(*d), *m);
        }
        InnerState { log: vec![], emitted: self.0.script.clone() }
    }
    fn on_msg(&self, _: Id, s: &mut Cow<InnerState>, src: Id, m: u8, o: &mut Out<Self>) {
        if self.0.ignore == Some(m) {
            return;
        }
        if self.0.stateless_reply {
            if let Some((trigger, d, v)) = self.0.reply {
                if trigger == m {
                    // output without a state change
                    o.send(Id::from(d), 100 + v);
                    return;
                }
            }
        }
        let st = s.to_mut();
        st.log.push((src.into(), m));
        if let Some((trigger, d, v)) = self.0.reply {
            if trigger == m {
                // distinct value per emission, so that the receiver's log identifies each message
                let v = 10 + v + 10 * st.emitted.len() as u8;
                o.send(Id::from(d), v);
                st.emitted.push((d, v));
            }
        }
    }
}

#[derive(Clone, Debug, Serialize, Deserialize, PartialEq, Eq, Hash)]
pub struct OrlCase {
    pub actors: Vec<InnerDesc>,
    pub duplicating: bool,
    pub ordered: bool,
    pub lossy: bool,
    /// boundary: network.len() < bound
    pub bound: usize,
}

type M = ActorModel<ActorWrapper<Inner>, usize, ()>;

fn build(c: &OrlCase) -> M {
    let net = if c.ordered {
        Network::new_ordered([])
    } else if c.duplicating {
        Network::new_unordered_duplicating([])
    } else {
        Network::new_unordered_nonduplicating([])
    };
    ActorModel::new(c.bound, ())
        .actors(c.actors.iter().map(|d| ActorWrapper::with_default_timeout(Inner(d.clone()))))
        .init_network(net)
        .lossy_network(if c.lossy { LossyNetwork::Yes } else { LossyNetwork::No })
        .within_boundary(|bound, s| s.network.len() < *bound)
}

pub struct Link;
impl SubCheck for Link {
    type Case = OrlCase;
    fn name(&self) -> &'static str {
        "exactly_once_in_order"
    }
    fn cases(&self, tier: Tier) -> u32 {
        tier.pick(2000, 24000)
    }
    fn strategy(&self, tier: Tier) -> BoxedStrategy<OrlCase> {
        let max_bound = tier.pick(5usize, 6usize);
        (2usize..=3)
            .prop_flat_map(move |n| {
                let inner = (proptest::collection::vec((prop_oneof![3 => Just(0usize), 1 => 0..n], 0u8..3), 0..=3), proptest::option::weighted(0.2, 0u8..3), proptest::option::weighted(0.25, (0u8..3, 0..n, 3u8..5)))
                    .prop_map(|(script, ignore, reply)| InnerDesc { script, ignore, reply, stateless_reply: false });
                (proptest::collection::vec(inner, n), any::<bool>(), proptest::bool::weighted(0.25), any::<bool>(), 3usize..=max_bound)
            })
            .prop_map(|(mut actors, duplicating, ordered, lossy, bound)| {
                // every second system: replies are produced by stateless responders
                if bound % 2 == 0 {
                    for a in actors.iter_mut() {
                        a.stateless_reply = a.reply.is_some();
                    }
                }
                // no self-addressed traffic (a link to oneself is not what the property is about)
                for (i, a) in actors.iter_mut().enumerate() {
                    let n = 3;
                    let _ = n;
                    a.script.retain(|(d, _)| *d != i);
                    // distinct values per sender, so that the receiver's log identifies each message
                    // (also on ordered networks: with loss, a retransmission of a dropped first message
                    // arrives after the second one there too, which is the known finding F10, and
                    // equal values would make the oracle misclassify it)
                    // One system in four keeps the generated values (0..3, so equal payloads to the same
                    // peer are common); for those the oracle below only uses value-free criteria.
                    let _ = ordered;
                    if bound % 4 != 1 {
                        for (k, e) in a.script.iter_mut().enumerate() {
                            e.1 = k as u8;
                        }
                    }
                    if let Some((_, d, _)) = a.reply {
                        if d == i {
                            a.reply = None;
                        }
                    }
                }
                OrlCase { actors, duplicating, ordered, lossy, bound }
            })
            .boxed()
    }
    fn check(&self, c: &OrlCase, cov: &mut Cov) -> Result<(), Fail> {
        let model = build(c);
        let n = c.actors.len();
        let mut seen: HashSet<ActorModelState<ActorWrapper<Inner>, ()>> = HashSet::new();
        let mut queue = VecDeque::new();
        for s in model.init_states() {
            if Model::within_boundary(&model, &s) {
                seen.insert(s.clone());
                queue.push_back(s);
            }
        }
        let cap = 40000;
        let mut fails: Vec<Fail> = vec![];
        let mut overtaken_seen = 0u64;
        let mut reordering_possible = false;
        let mut handovers = 0usize;
        let mut stateless_replies_seen = false;
        let mut repeated_seen = false;
        while let Some(st) = queue.pop_front() {
            cov.eval();
            // ---------------- oracle on this state ----------------
            for s in 0..n {
                let sender = &*st.actor_states[s];
                let emitted = &sender.verif_wrapped_state().emitted;
                // sequencers are assigned in emission order, starting at 1
                for r in 0..n {
                    if r == s {
                        continue;
                    }
                    let sent: Vec<(u64, u8)> = emitted.iter().enumerate().filter(|(_, (d, _))| *d == r).map(|(k, (_, m))| (k as u64 + 1, *m)).collect();
                    let recv = &*st.actor_states[r];
                    let ignore = c.actors[r].ignore;
                    let handed: Vec<u8> = recv.verif_wrapped_state().log.iter().filter(|(src, m)| *src == s && *m < 100).map(|(_, m)| *m).collect();
                    handovers = handovers.max(handed.len());
                    // what should be visible in the log: the sent sequence without ignored values
                    // (a stateless responder does not log its trigger value either)
                    let silent_trigger = if c.actors[r].stateless_reply { c.actors[r].reply.map(|x| x.0) } else { None };
                    let visible: Vec<(u64, u8)> = sent.iter().copied().filter(|(_, m)| Some(*m) != ignore && Some(*m) != silent_trigger).collect();
                    let last_delivered = recv.verif_last_delivered_seqs().iter().find(|(src, _)| usize::from(*src) == s).map(|(_, q)| *q).unwrap_or(0);
                    let mut vals: Vec<u8> = visible.iter().map(|v| v.1).collect();
                    vals.sort();
                    let repeated_payloads = vals.windows(2).any(|w| w[0] == w[1]);
                    if repeated_payloads {
                        // Equal payloads: the log cannot tell which copy was handed over, so only
                        // criteria that do not need the identity of a message are used.
                        repeated_seen = true;
                        // (a) never more copies of a value handed over than were sent
                        for v in 0u8..3 {
                            let (h, t) = (handed.iter().filter(|x| **x == v).count(), visible.iter().filter(|x| x.1 == v).count());
                            if h > t {
                                fails.push(Fail::new("c16/handed-over-twice-or-out-of-order", format!("receiver {} was handed value {} {} time(s) from sender {}, which sent it {} time(s); state {:?}", r, v, h, s, t, st)));
                            }
                        }
                        // (b) once nothing is pending or in flight, no sent sequencer may lie above
                        // the last one the receiver handed over (a message that was never delivered
                        // at all; the known overtaking finding only loses sequencers *below* it)
                        let pending = sender.verif_msgs_pending_ack().iter().any(|(_, d, _)| usize::from(*d) == r);
                        let in_flight = st.network.iter_all().any(|e| usize::from(e.src) == s && usize::from(e.dst) == r && matches!(e.msg, MsgWrapper::Deliver(..)));
                        if !pending && !in_flight {
                            if let Some(top) = visible.iter().map(|v| v.0).max() {
                                if top > last_delivered {
                                    fails.push(Fail::new("c16/acknowledged-but-never-handed-over", format!("sender {} has nothing pending for {} and nothing is in flight, but it sent sequencer {} and the receiver's last delivered sequencer is {} (sent {:?}, handed {:?}); state {:?}", s, r, top, last_delivered, sent, handed, st)));
                                }
                            }
                        }
                        continue;
                    }
                    // match `handed` as a subsequence of `visible`
                    let mut pos = 0usize;
                    let mut gaps: Vec<u64> = vec![];
                    let mut ok_subseq = true;
                    for h in &handed {
                        let mut found = None;
                        for k in pos..visible.len() {
                            if visible[k].1 == *h {
                                found = Some(k);
                                break;
                            }
                        }
                        match found {
                            Some(k) => {
                                for g in pos..k {
                                    gaps.push(visible[g].0);
                                }
                                pos = k + 1;
                            }
                            None => {
                                ok_subseq = false;
                                break;
                            }
                        }
                    }
                    if !ok_subseq {
                        fails.push(Fail::new("c16/handed-over-twice-or-out-of-order", format!("receiver {} was handed {:?} from sender {}, which sent it {:?} (ignored value {:?}); state {:?}", r, handed, s, sent, ignore, st)));
                        continue;
                    }
                    if visible.len() >= 2 && !c.ordered {
                        reordering_possible = true;
                    }
                    for g in &gaps {
                        if *g < last_delivered {
                            overtaken_seen += 1;
                            if overtaken_seen == 1 {
                            fails.push(Fail::new(OVERTAKEN, format!("receiver {} was handed {:?} from sender {} although it was sent {:?}: message with sequencer {} was overtaken (last delivered sequencer {}) and will be acknowledged and discarded; state {:?}", r, handed, s, sent, g, last_delivered, st)));
                            }
                        } else {
                            fails.push(Fail::new("c16/handed-over-sequence-skips-a-message", format!("receiver {} was handed {:?} from sender {}, sent {:?}: sequencer {} skipped although last delivered is {}; state {:?}", r, handed, s, sent, g, last_delivered, st)));
                        }
                    }
                    // completeness: nothing pending for r, nothing in flight for r => everything handed over
                    let pending = sender.verif_msgs_pending_ack().iter().any(|(_, d, _)| usize::from(*d) == r);
                    let in_flight = st.network.iter_all().any(|e| usize::from(e.src) == s && usize::from(e.dst) == r && matches!(e.msg, MsgWrapper::Deliver(..)));
                    if !pending && !in_flight && gaps.is_empty() && pos < visible.len() {
                        let missing: Vec<u64> = visible[pos..].iter().map(|v| v.0).collect();
                        if missing.iter().all(|q| *q <= last_delivered) && missing.iter().any(|q| *q < last_delivered) {
                            overtaken_seen += 1;
                            if overtaken_seen == 1 {
                            fails.push(Fail::new(OVERTAKEN, format!("all retransmissions from {} to {} are acknowledged, yet sequencers {:?} were never handed over (last delivered {}); state {:?}", s, r, missing, last_delivered, st)));
                            }
                        } else {
                            fails.push(Fail::new("c16/acknowledged-but-never-handed-over", format!("sender {} has nothing pending for {} and nothing is in flight, but sequencers {:?} of {:?} were never handed over (handed {:?}, last delivered {}); state {:?}", s, r, missing, sent, handed, last_delivered, st)));
                        }
                    }
                }
            }
            // stateless responders: each trigger is handed over at most once, so a peer can be
            // handed at most as many replies as triggers were sent to the responder
            for r in 0..n {
                if let (true, Some((trigger, d, v))) = (c.actors[r].stateless_reply, c.actors[r].reply) {
                    let triggers_sent: usize = (0..n).filter(|s| *s != r).map(|s| st.actor_states[s].verif_wrapped_state().emitted.iter().filter(|(dst, m)| *dst == r && *m == trigger).count()).sum();
                    let replies_handed = st.actor_states[d].verif_wrapped_state().log.iter().filter(|(src, m)| *src == r && *m == 100 + v).count();
                    if replies_handed > 0 {
                        stateless_replies_seen = true;
                    }
                    if replies_handed > triggers_sent {
                        fails.push(Fail::new("c16/stateless-responder-handed-the-same-message-twice", format!("actor {} answers value {} with a reply to {} without changing state; {} trigger(s) were sent to it but {} replies were handed to actor {}; state {:?}", r, trigger, d, triggers_sent, replies_handed, d, st)));
                    }
                }
            }
            if fails.len() > 50 {
                break;
            }
            // ---------------- successors ----------------
            let mut acts = vec![];
            model.actions(&st, &mut acts);
            for a in acts {
                match &a {
                    ActorModelAction::Drop(_) => cov.label("drop"),
                    ActorModelAction::Timeout(..) => cov.label("retransmission_timeout"),
                    _ => {}
                }
                if let Some(nx) = model.next_state(&st, a) {
                    if Model::within_boundary(&model, &nx) && seen.len() < cap && seen.insert(nx.clone()) {
                        queue.push_back(nx);
                    }
                }
            }
        }
        cov.count("states", seen.len() as u64);
        cov.label(match (c.ordered, c.duplicating, c.lossy) {
            (true, _, false) => "ordered",
            (true, _, true) => "ordered_lossy",
            (false, true, false) => "duplicating",
            (false, true, true) => "duplicating_lossy",
            (false, false, false) => "nonduplicating",
            (false, false, true) => "nonduplicating_lossy",
        });
        cov.label_if(reordering_possible, "two_messages_in_one_unordered_flow");
        cov.label_if(overtaken_seen > 0, "overtaking_observed");
        cov.label_if(c.actors.iter().any(|a| a.reply.is_some()), "reverse_traffic");
        cov.label_if(c.actors.iter().any(|a| a.ignore.is_some()), "ignoring_receiver");
        cov.label_if(stateless_replies_seen, "stateless_reply_handed_over");
        cov.label_if(repeated_seen, "repeated_equal_payloads_to_one_peer");
        cov.label_if(seen.len() >= cap, "capped");
        if handovers >= 2 {
            cov.nontrivial(c);
            if cov.wants_sample() {
                cov.sample(json!({"case": c, "states": seen.len(), "overtaking_states": overtaken_seen}));
            }
        }
        // report a violation other than the known overtaking defect first, so that the known
        // finding never hides a different one
        if let Some(f) = fails.iter().find(|f| f.sig != OVERTAKEN) {
            return Err(f.clone());
        }
        if let Some(f) = fails.into_iter().next() {
            return Err(f);
        }
        Ok(())
    }
    fn mandatory(&self) -> Vec<&'static str> {
        vec!["two_messages_in_one_unordered_flow", "duplicating", "duplicating_lossy", "nonduplicating", "nonduplicating_lossy", "drop", "retransmission_timeout", "reverse_traffic", "ignoring_receiver", "stateless_reply_handed_over", "repeated_equal_payloads_to_one_peer"]
    }
    fn workers(&self) -> usize {
        default_workers()
    }
    fn max_shrink_iters(&self) -> u32 {
        300
    }
}

pub fn spec() -> PropSpec {
    PropSpec {
        id: "C16",
        level: "exploration",
        rule: "Cases = systems of 2-3 link-wrapped actors, each with a script of 0-3 messages to the others (interleaved destinations, so per-destination sequencers have gaps), optional reverse traffic (a reply triggered by a handed-over value) and optionally a receiver that ignores one value; unordered duplicating / non-duplicating (and a few ordered) networks x lossy; boundary network.len() < 3..6. Every reachable state within the boundary is enumerated by the harness (through Model::actions/next_state) and at each one, for each (sender, receiver): the sequence handed over (receiver log, read through the verification accessors) must be a prefix of the sequence the sender's wrapped actor emitted to that peer, nothing twice; if the sender has nothing pending for the receiver and no Deliver for it is in flight the two sequences are equal. One evaluation = one visited state. Non-trivial = a system in which some receiver is handed >= 2 messages; distinct by hash of the case.",
        assumptions: vec!["a state-dependent no-op receiver is not generated (it could be handed a message twice without any state-visible effect)", "retransmission is bounded by the network-size boundary"],
        subs: vec![Box::new(Link)],
    }
}
