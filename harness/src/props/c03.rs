//! C03 — every reported discovery is a genuine witness path.

use crate::engine::*;
use crate::graph::*;
use crate::props::c02::GCase;
use crate::runner::*;
use crate::{ensure, fail};
use proptest::prelude::*;
use serde_json::json;
use stateright::Path;
use std::time::Duration;

pub fn finish_strategy(max_props: usize) -> BoxedStrategy<Option<Finish>> {
    let names = move || proptest::collection::vec(0..max_props.max(1), 0..=3).prop_map(|v| v.into_iter().map(|k| PROP_NAMES[k].to_string()).collect::<Vec<_>>());
    prop_oneof![
        4 => Just(None),
        1 => Just(Some(Finish::All)),
        2 => Just(Some(Finish::Any)),
        2 => Just(Some(Finish::AnyFailures)),
        2 => Just(Some(Finish::AllFailures)),
        2 => names().prop_map(|v| Some(Finish::AllOf(v))),
        2 => names().prop_map(|v| Some(Finish::AnyOf(v))),
    ]
    .boxed()
}

/// Any strategy incl. simulation (bounded by target_state_count), any thread count, any finish condition.
pub fn any_cfg(max_props: usize) -> BoxedStrategy<RunCfg> {
    any_cfg_depth(max_props, false)
}

/// As `any_cfg`, optionally with a generated `target_max_depth`.
pub fn any_cfg_depth(max_props: usize, with_depth: bool) -> BoxedStrategy<RunCfg> {
    (
        prop_oneof![2 => Just(0u8), 2 => Just(1u8), 2 => Just(2u8), 3 => Just(3u8)],
        any::<u64>(),
        prop_oneof![3 => Just(1usize), 2 => Just(2usize), 1 => Just(3usize), 1 => Just(4usize)],
        finish_strategy(max_props),
        30usize..300,
        block_strategy(),
        if with_depth { proptest::option::weighted(0.4, 1usize..7).boxed() } else { Just(None::<usize>).boxed() },
    )
        .prop_map(|(s, seed, threads, finish, target, block_size, depth)| {
            let strat = match s {
                0 => Strat::Bfs,
                1 => Strat::Dfs,
                2 => Strat::OnDemand,
                _ => Strat::Sim(seed % 1000),
            };
            RunCfg {
                strat,
                threads,
                finish,
                target_state_count: if matches!(strat, Strat::Sim(_)) { Some(target) } else { None },
                target_max_depth: depth,
                timeout_ms: None,
                symmetry: false,
                block_size,
            }
        })
        .boxed()
}

/// Validates one discovery against the statement of C03. `same` decides whether two states count
/// as the same for the "closes a cycle" clause (identity, or equal representatives under symmetry).
pub fn validate_discovery<M>(
    model: &M,
    exp: Exp,
    holds: &dyn Fn(&M::State) -> bool,
    has_inb_successor: &dyn Fn(&M::State) -> bool,
    path: &Path<M::State, M::Action>,
    simulation: bool,
    same: &dyn Fn(&M::State, &M::State) -> bool,
) -> Result<(), Fail>
where
    M: stateright::Model,
    M::State: Clone + PartialEq + std::fmt::Debug,
    M::Action: Clone + PartialEq + std::fmt::Debug,
{
    let states = validate_path(model, path)?;
    let last = states.last().unwrap();
    match exp {
        Exp::Always => ensure!(!holds(last), "discovery/always-last-state-satisfies", "the last state {:?} of the counterexample satisfies the always-condition", last),
        Exp::Sometimes => ensure!(holds(last), "discovery/sometimes-last-state-does-not-satisfy", "the last state {:?} of the example does not satisfy the sometimes-condition", last),
        Exp::Eventually => {
            if let Some((i, s)) = states.iter().enumerate().find(|(_, s)| holds(s)) {
                fail!("discovery/eventually-path-satisfies-condition", "state #{} {:?} on the eventually-counterexample {:?} satisfies the condition", i, s, states);
            }
            let terminal = !has_inb_successor(last);
            let closes_cycle = simulation && states[..states.len() - 1].iter().any(|s| same(s, last));
            ensure!(terminal || closes_cycle, "discovery/eventually-path-not-maximal", "the eventually-counterexample {:?} ends in {:?}, which has an in-boundary successor{}", states, last, if simulation { " and does not close a cycle" } else { "" });
        }
    }
    Ok(())
}

pub struct Witnesses;
impl SubCheck for Witnesses {
    type Case = GCase;
    fn name(&self) -> &'static str {
        "witness_paths"
    }
    fn cases(&self, tier: Tier) -> u32 {
        tier.pick(10000, 150000)
    }
    fn strategy(&self, tier: Tier) -> BoxedStrategy<GCase> {
        let mut p = GraphParams::small();
        p.max_props = 5;
        p.min_props = 2;
        p.max_n = tier.pick(20, 40);
        p.oob_rate = 45;
        // eventually twice as likely
        p.exps = vec![Exp::Always, Exp::Sometimes, Exp::Eventually, Exp::Eventually];
        (graph_strategy(p), any_cfg_depth(5, true)).prop_map(|(g, cfg)| GCase { g, cfg }).boxed()
    }
    fn check(&self, case: &GCase, cov: &mut Cov) -> Result<(), Fail> {
        let g = &case.g;
        let gm = GM::new(g);
        let out = run_checker(gm.clone(), &case.cfg, &PROP_NAMES, None, false, Duration::from_secs(120));
        if out.gave_up {
            fail!("inconclusive/workers-did-not-finish", "{:?}", case.cfg);
        }
        cov.eval();
        let sim = matches!(case.cfg.strat, Strat::Sim(_));
        let disc = match &out.discoveries {
            Ok(d) => d,
            Err(e) => {
                let first = e.lines().find(|l| !l.trim().is_empty()).unwrap_or("").trim().chars().take(60).collect::<String>();
                fail!(format!("c03/discoveries-panicked: {}", first), "discoveries() panicked under {:?}: {}", case.cfg, e)
            }
        };
        let mut any_len1 = false;
        for (k, p) in g.props.iter().enumerate() {
            let Some(path) = disc.get(PROP_NAMES[k]) else { continue };
            let holds = |s: &S| p.on.contains(&s.0);
            let has_succ = |s: &S| !g.succ_inb(s.0).is_empty();
            if let Err(f) = validate_discovery(&gm, p.exp, &holds, &has_succ, path, sim, &|a, b| a == b) {
                fail!(format!("c03/{}/{}", if sim { "simulation" } else { "exhaustive" }, f.sig), "property {} ({:?}) under {:?}: {}", PROP_NAMES[k], p.exp, case.cfg, f.detail);
            }
            let len = path.clone().into_actions().len();
            any_len1 |= len >= 1;
            cov.label(match p.exp {
                Exp::Always => "always_discovery",
                Exp::Sometimes => "sometimes_discovery",
                Exp::Eventually => "eventually_discovery",
            });
            if p.exp == Exp::Eventually {
                cov.label(&format!("eventually_discovery/{}", case.cfg.strat.label()));
                let states = path.clone().into_states();
                let last = states.last().unwrap();
                cov.label_if(sim && !g.succ_inb(last.0).is_empty(), "loop_closed");
                cov.label_if(g.edges[last.0 as usize].iter().flatten().any(|t| !g.inb(*t)), "oob_successor_at_path_end");
            }
        }
        cov.label(case.cfg.strat.label());
        cov.label_if(case.cfg.finish.is_some(), "finish_condition_set");
        cov.label_if(case.cfg.target_max_depth.is_some(), "depth_limit_set");
        cov.label_if(case.cfg.threads > 1, "threads>1");
        if any_len1 && g.props.len() >= 2 {
            cov.nontrivial(&(g, &case.cfg));
            if cov.wants_sample() {
                cov.sample(json!({"graph": g, "cfg": case.cfg, "discoveries": disc.iter().map(|(k, p)| (k.to_string(), p.clone().into_states().iter().map(|s| s.0).collect::<Vec<_>>())).collect::<std::collections::BTreeMap<_, _>>()}));
            }
        }
        Ok(())
    }
    fn mandatory(&self) -> Vec<&'static str> {
        vec!["eventually_discovery/bfs", "eventually_discovery/dfs", "eventually_discovery/on_demand", "eventually_discovery/simulation", "always_discovery", "sometimes_discovery", "finish_condition_set", "depth_limit_set", "threads>1"]
    }
}

/// The same validation with the harness owning the schedule (C05's cooperative scheduler, with
/// scheduling points inside model code): two workers reaching the same join state at the same
/// moment, one by a path that satisfies an eventually-condition and one by a path that does not.
pub struct WitnessesScheduled;
impl SubCheck for WitnessesScheduled {
    type Case = crate::props::c05::SchedCase;
    fn name(&self) -> &'static str {
        "witness_paths_under_owned_schedules"
    }
    fn cases(&self, tier: Tier) -> u32 {
        tier.pick(4000, 60000)
    }
    fn max_shrink_iters(&self) -> u32 {
        600
    }
    fn strategy(&self, _tier: Tier) -> BoxedStrategy<Self::Case> {
        use crate::props::c05::{SchedCase, Stop};
        let mut p = GraphParams::small();
        p.max_n = 14;
        p.max_deg = 3;
        p.max_props = 3;
        p.min_props = 1;
        p.oob_rate = 15;
        p.exps = vec![Exp::Eventually, Exp::Eventually, Exp::Always, Exp::Sometimes];
        p.shapes = vec![(3, Shape::Dag(2)), (2, Shape::Dag(3)), (2, Shape::Uniform), (1, Shape::Cyclic)];
        p.max_inits = 2;
        // half of the graphs are chains of diamonds (t -> l, r -> b): with blocks of one state the
        // two workers evaluate l and r side by side and reach the join b together
        let diamonds = (1usize..=3, proptest::collection::vec(any::<u8>(), 12), proptest::collection::vec(prop_oneof![2 => Just(Exp::Eventually), 1 => Just(Exp::Always), 1 => Just(Exp::Sometimes)], 1..=3), 0usize..=2, 0u8..3).prop_map(|(k, masks, exps, tail, lone)| {
            // `lone` > 0: a second initial state without successors (a path that ends at once), listed
            // before or after the first one - one worker records its verdicts while the other is
            // still on its way through the diamonds
            let n = 3 * k + 1 + tail + usize::from(lone > 0);
            let mut edges: Vec<Vec<Option<u32>>> = vec![vec![]; n];
            for d in 0..k {
                let t = 3 * d;
                edges[t] = vec![Some(t as u32 + 1), Some(t as u32 + 2)];
                edges[t + 1] = vec![Some(t as u32 + 3)];
                edges[t + 2] = vec![Some(t as u32 + 3)];
            }
            let chain_end = 3 * k + tail;
            for i in 3 * k..chain_end {
                edges[i] = vec![Some(i as u32 + 1)];
            }
            let inits = match lone {
                0 => vec![0],
                1 => vec![0, n as u32 - 1],
                _ => vec![n as u32 - 1, 0],
            };
            let props = exps.iter().enumerate().map(|(j, e)| PropDesc { exp: *e, on: (0..n as u32).filter(|s| (masks[*s as usize % masks.len()] >> j) & 1 == 1).collect() }).collect();
            GraphDesc { n: n as u32, inits, edges, oob: Default::default(), props, panic_at: None, shape: "Diamonds".to_string(), yield_in_model: true, slow_us: 0 }
        });
        (prop_oneof![1 => graph_strategy(p), 2 => diamonds.boxed()], prop_oneof![Just(Strat::Bfs), Just(Strat::Dfs), Just(Strat::OnDemand)], 2usize..=3, 1usize..=2, proptest::collection::vec(any::<u8>(), 20..200))
            .prop_map(|(g, strat, threads, block, schedule)| SchedCase { g, strat, threads, block, stop: Stop::Exhaust, schedule, yield_in_model: true, real_threads: false })
            .boxed()
    }
    fn check(&self, c: &Self::Case, cov: &mut Cov) -> Result<(), Fail> {
        use crate::props::c05::{run_scheduled, Joined, JOIN_WAIT_S};
        let out = run_scheduled(c, Duration::from_secs(JOIN_WAIT_S));
        cov.eval();
        if out.stuck {
            fail!("inconclusive/scheduler-watchdog", "a controlled thread did not reach a scheduling point within the watchdog");
        }
        if let Some(d) = &out.deadlock {
            fail!("c03/scheduled/worker-sleeps-forever", "logical deadlock: {}", d);
        }
        if !matches!(out.joined, Joined::Returned) {
            fail!("c03/scheduled/join-did-not-return-normally", "{} threads={} block={}", c.strat.label(), c.threads, c.block);
        }
        if let Err(e) = &out.discovered {
            let first = e.lines().find(|l| !l.trim().is_empty()).unwrap_or("").trim().chars().take(60).collect::<String>();
            fail!(format!("c03/scheduled/discoveries-panicked: {}", first), "discoveries() panicked: {}", e);
        }
        let g = &c.g;
        let gm = GM::new(g);
        for (k, p) in g.props.iter().enumerate() {
            let Some(path) = out.discovery_paths.get(PROP_NAMES[k]) else { continue };
            let holds = |s: &S| p.on.contains(&s.0);
            let has_succ = |s: &S| !g.succ_inb(s.0).is_empty();
            if let Err(f) = validate_discovery(&gm, p.exp, &holds, &has_succ, path, false, &|a, b| a == b) {
                fail!(format!("c03/scheduled/{}", f.sig), "property {} ({:?}) under {} with {} workers, block {}: {}", PROP_NAMES[k], p.exp, c.strat.label(), c.threads, c.block, f.detail);
            }
            cov.label(match p.exp {
                Exp::Eventually => "eventually_discovery",
                Exp::Always => "always_discovery",
                Exp::Sometimes => "sometimes_discovery",
            });
        }
        let workers: std::collections::BTreeSet<&str> = out.visits.iter().map(|v| v.thread.as_str()).collect();
        cov.label(c.strat.label());
        cov.label_if(workers.len() >= 2, "two_workers_did_work");
        cov.label_if(g.features().contains(&"join"), "join");
        cov.label_if(g.shape == "Diamonds", "diamond_chain");
        if workers.len() >= 2 && !out.discovery_paths.is_empty() {
            cov.nontrivial(c);
            if cov.wants_sample() {
                cov.sample(json!({"graph": g, "strategy": c.strat.label(), "threads": c.threads, "block": c.block, "discoveries": out.discovery_paths.iter().map(|(k, p)| (k.to_string(), p.clone().into_states().iter().map(|s| s.0).collect::<Vec<_>>())).collect::<std::collections::BTreeMap<_, _>>()}));
            }
        }
        Ok(())
    }
    fn mandatory(&self) -> Vec<&'static str> {
        vec!["bfs", "dfs", "on_demand", "two_workers_did_work", "join", "eventually_discovery", "diamond_chain"]
    }
}

pub fn spec() -> PropSpec {
    PropSpec {
        id: "C03",
        level: "exploration",
        rule: "Cases = (generated graph model with 2-5 properties, eventually-properties favoured, boundaries next to terminal states; strategy in {bfs,dfs,on-demand,simulation}; threads 1-4; all six finish conditions). Every path returned by discoveries() (called under catch_unwind) is validated by a path validator independent of Path::from_fingerprints: initial state, enabled actions, next_state agreement, boundary, and the per-expectation end condition (eventually: no state satisfies, and terminal or - simulation only - cycle closed). Non-trivial = some discovery with >= 1 transition in a model with >= 2 properties; distinct by hash of (graph, config).",
        assumptions: vec!["validates what is returned after the workers have finished; snapshots during a run are not examined"],
        subs: vec![Box::new(Witnesses), Box::new(WitnessesScheduled)],
    }
}
