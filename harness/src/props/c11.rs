//! C11 — eventually-properties: never a false alarm, exact on forests.

use crate::engine::*;
use crate::graph::*;
use crate::props::c02::GCase;
use crate::props::c03::any_cfg_depth;
use crate::runner::*;
use crate::{ensure, fail};
use proptest::prelude::*;
use serde_json::json;
use std::time::Duration;

fn check_eventually(case: &GCase, cov: &mut Cov, forest_only: bool) -> Result<(), Fail> {
    let g = &case.g;
    let gm = GM::new(g);
    let out = run_checker(gm, &case.cfg, &PROP_NAMES, None, false, Duration::from_secs(120));
    if out.gave_up {
        fail!("inconclusive/workers-did-not-finish", "{:?}", case.cfg);
    }
    cov.eval();
    let disc = match &out.discoveries {
        Ok(d) => d.keys().copied().collect::<Vec<_>>(),
        Err(e) => {
            // path reconstruction problems are C03's business; the name set is what matters here,
            // but we cannot obtain it without the paths
            let first = e.lines().find(|l| !l.trim().is_empty()).unwrap_or("").trim().chars().take(60).collect::<String>();
            fail!(format!("c11/discoveries-panicked: {}", first), "{}", e)
        }
    };
    let forest = g.is_forest();
    let exhaustive = case.cfg.strat.exhaustive();
    let all_discovered = disc.len() == g.props.len();
    let finish_default = case.cfg.finish.is_none() || case.cfg.finish == Some(Finish::All);
    let mut verdicts = vec![];
    for (k, p) in g.props.iter().enumerate() {
        if p.exp != Exp::Eventually {
            continue;
        }
        let reported = disc.contains(&PROP_NAMES[k]);
        let violated = g.eventually_violated(&p.on);
        verdicts.push(violated);
        if reported && !violated {
            fail!(format!("c11/{}/false-alarm", if exhaustive { "exhaustive" } else { "simulation" }), "eventually-property {} is reported violated under {:?}, but every maximal in-boundary path reaches a state satisfying it", PROP_NAMES[k], case.cfg);
        }
        if forest && exhaustive && finish_default && case.cfg.target_max_depth.is_none() && !all_discovered && violated && !reported {
            fail!("c11/forest-counterexample-missed", "forest-shaped model: a maximal in-boundary path never satisfies {} but no counterexample is reported under {:?}", PROP_NAMES[k], case.cfg);
        }
        cov.label(match (forest, violated, reported) {
            (true, true, true) => "forest_violated_reported",
            (true, false, false) => "forest_satisfied_silent",
            (false, true, true) => "nonforest_violated_reported",
            (false, true, false) => "nonforest_violated_missed(documented)",
            (false, false, false) => "nonforest_satisfied_silent",
            (true, true, false) => "forest_violated_not_reported(early_exit)",
            _ => "other",
        });
    }
    cov.label(case.cfg.strat.label());
    cov.label_if(verdicts.iter().any(|v| *v) && verdicts.iter().any(|v| !*v), "mixed_eventually_verdicts");
    let _ = forest_only;
    // non-trivial: some maximal path satisfies and some violates one eventually-condition
    let mixed_paths = g.props.iter().any(|p| {
        p.exp == Exp::Eventually && g.eventually_violated(&p.on) && {
            let r = g.reach();
            r.set.iter().any(|s| p.on.contains(s))
        }
    });
    if mixed_paths {
        cov.nontrivial(&(g, &case.cfg));
        if cov.wants_sample() {
            cov.sample(json!({"graph": g, "cfg": case.cfg, "forest": forest, "reported": disc}));
        }
    }
    Ok(())
}

pub struct AnyShape;
impl SubCheck for AnyShape {
    type Case = GCase;
    fn name(&self) -> &'static str {
        "soundness_any_shape"
    }
    fn cases(&self, tier: Tier) -> u32 {
        tier.pick(4000, 80000)
    }
    fn strategy(&self, tier: Tier) -> BoxedStrategy<GCase> {
        let mut p = GraphParams::small();
        p.max_props = 4;
        p.min_props = 1;
        p.max_n = tier.pick(20, 40);
        p.exps = vec![Exp::Eventually, Exp::Eventually, Exp::Always, Exp::Sometimes];
        p.oob_rate = 40;
        (graph_strategy(p), any_cfg_depth(4, true)).prop_map(|(g, cfg)| GCase { g, cfg }).boxed()
    }
    fn check(&self, case: &GCase, cov: &mut Cov) -> Result<(), Fail> {
        check_eventually(case, cov, false)
    }
    fn mandatory(&self) -> Vec<&'static str> {
        vec!["nonforest_violated_reported", "nonforest_satisfied_silent", "bfs", "dfs", "on_demand", "simulation", "mixed_eventually_verdicts"]
    }
}

pub struct Forests;
impl SubCheck for Forests {
    type Case = GCase;
    fn name(&self) -> &'static str {
        "exactness_on_forests"
    }
    fn cases(&self, tier: Tier) -> u32 {
        tier.pick(4000, 80000)
    }
    fn strategy(&self, tier: Tier) -> BoxedStrategy<GCase> {
        let mut p = GraphParams::small();
        p.max_props = 4;
        p.min_props = 1;
        p.max_n = tier.pick(24, 50);
        p.exps = vec![Exp::Eventually, Exp::Eventually, Exp::Eventually, Exp::Always, Exp::Sometimes];
        p.shapes = vec![(1, Shape::Forest)];
        p.oob_rate = 40;
        (graph_strategy(p), crate::props::c01::exhaustive_strat(), crate::props::c01::threads_strategy(), block_strategy())
            .prop_map(|(g, strat, threads, block)| GCase { g, cfg: RunCfg::plain(strat, threads).with_block(block) })
            .boxed()
    }
    fn check(&self, case: &GCase, cov: &mut Cov) -> Result<(), Fail> {
        if !case.g.is_forest() {
            fail!("inconclusive/generator-produced-non-forest", "forest generator produced a non-forest: {:?}", case.g);
        }
        check_eventually(case, cov, true)
    }
    fn mandatory(&self) -> Vec<&'static str> {
        vec!["forest_violated_reported", "forest_satisfied_silent", "bfs", "dfs", "on_demand", "mixed_eventually_verdicts"]
    }
}

/// Soundness with the harness owning the schedule (C05's cooperative scheduler; map operations and
/// model code are scheduling points): a worker that loses the race for a join state must not take
/// its own state for a dead end.
pub struct SoundnessScheduled;
impl SubCheck for SoundnessScheduled {
    type Case = crate::props::c05::SchedCase;
    fn name(&self) -> &'static str {
        "soundness_under_owned_schedules"
    }
    fn cases(&self, tier: Tier) -> u32 {
        tier.pick(2500, 40000)
    }
    fn max_shrink_iters(&self) -> u32 {
        600
    }
    fn strategy(&self, tier: Tier) -> BoxedStrategy<Self::Case> {
        crate::props::c03::WitnessesScheduled.strategy(tier)
    }
    fn check(&self, c: &Self::Case, cov: &mut Cov) -> Result<(), Fail> {
        use crate::props::c05::{run_scheduled, Joined, JOIN_WAIT_S};
        let out = run_scheduled(c, std::time::Duration::from_secs(JOIN_WAIT_S));
        cov.eval();
        if out.stuck {
            fail!("inconclusive/scheduler-watchdog", "a controlled thread did not reach a scheduling point within the watchdog");
        }
        if out.deadlock.is_some() || !matches!(out.joined, Joined::Returned) {
            fail!("c11/scheduled/run-did-not-end-normally", "{} threads={} block={}: deadlock={:?}", c.strat.label(), c.threads, c.block, out.deadlock);
        }
        let Ok(disc) = &out.discovered else { return Ok(()) };
        let g = &c.g;
        for (k, p) in g.props.iter().enumerate() {
            if p.exp != Exp::Eventually {
                continue;
            }
            let violated = g.eventually_violated(&p.on);
            let got = disc.contains(&PROP_NAMES[k]);
            ensure!(!got || violated, "c11/scheduled/false-alarm", "{} with {} workers, block {}: eventually-property {} has a counterexample although every maximal in-boundary path satisfies it (graph {:?})", c.strat.label(), c.threads, c.block, PROP_NAMES[k], g);
            if g.is_forest() {
                ensure!(got == violated, "c11/scheduled/forest-counterexample-missed", "{} with {} workers: eventually-property {} on a forest: reported {} but a violating path {}", c.strat.label(), c.threads, PROP_NAMES[k], got, if violated { "exists" } else { "does not exist" });
            }
            cov.label_if(got, "reported_and_genuine");
            cov.label_if(!got && !violated, "holds_and_not_reported");
        }
        let workers: std::collections::BTreeSet<&str> = out.visits.iter().map(|v| v.thread.as_str()).collect();
        cov.label(c.strat.label());
        cov.label_if(workers.len() >= 2, "two_workers_did_work");
        cov.label_if(g.shape == "Diamonds", "diamond_chain");
        if workers.len() >= 2 {
            cov.nontrivial(c);
            if cov.wants_sample() {
                cov.sample(json!({"graph": g, "strategy": c.strat.label(), "threads": c.threads, "block": c.block, "discovered": disc}));
            }
        }
        Ok(())
    }
    fn mandatory(&self) -> Vec<&'static str> {
        vec!["bfs", "dfs", "on_demand", "two_workers_did_work", "diamond_chain", "reported_and_genuine", "holds_and_not_reported"]
    }
}

pub fn spec() -> PropSpec {
    PropSpec {
        id: "C11",
        level: "exploration",
        rule: "Cases = (generated graph model with >= 1 eventually-property plus others; all shapes incl. cycles/joins/boundaries for soundness under {bfs,dfs,on-demand,simulation} x threads x finish conditions; forest-shaped models for exactness under {bfs,dfs,on-demand} x threads). Oracle: 'some maximal in-boundary path avoids the condition' = a dead end (no in-boundary successor) or a cycle reachable inside the avoiding subgraph, computed independently. Soundness: reported => oracle; forests: reported <=> oracle (unless the run stopped early because every property had a discovery). Non-trivial = model in which some maximal path violates an eventually-condition while some reachable state satisfies it; distinct by hash of (graph, config).",
        assumptions: vec!["the documented false negatives at joins and cycles are never demanded"],
        subs: vec![Box::new(AnyShape), Box::new(Forests), Box::new(SoundnessScheduled)],
    }
}
