//! C07 — message transport obeys the selected network semantics in every interleaving.

use crate::engine::*;
use crate::refsys::*;
use crate::{ensure, fail};
use proptest::prelude::*;
use serde::{Deserialize, Serialize};
use serde_json::json;
use stateright::actor::{Envelope, Network};

/// len / iter_all / iter_deliverable of a real network against the reference contents.
pub fn check_network_api(net: &Network<u8>, want: &RNet) -> Result<(), Fail> {
    let got = conv_net(net);
    ensure!(&got == want, "c07/network-contents-differ", "network contents {:?}, reference {:?}", got, want);
    let len = net.len();
    ensure!(len == want.len(), "c07/len-wrong", "len()={} but the network holds {} message(s): {:?}", len, want.len(), want);
    let e = |x: Envelope<&u8>| (usize::from(x.src), usize::from(x.dst), *x.msg);
    // iter_all must yield exactly the contents; consume with a cap so that non-termination is detected, not suffered
    let cap = want.len() + 2;
    let mut all: Vec<_> = net.iter_all().take(cap + 1).map(e).collect();
    ensure!(all.len() <= cap, "c07/iter_all-does-not-terminate", "iter_all() yielded more than {} items for a network of {} message(s): {:?}", cap, want.len(), want);
    let mut want_all = want.all();
    all.sort();
    want_all.sort();
    ensure!(all == want_all, "c07/iter_all-wrong", "iter_all() yields {:?}, the network holds {:?}", all, want_all);
    let mut del: Vec<_> = net.iter_deliverable().take(cap + 1).map(e).collect();
    let mut want_del = want.deliverable();
    del.sort();
    want_del.sort();
    ensure!(del == want_del, "c07/iter_deliverable-wrong", "iter_deliverable() yields {:?}, deliverable are {:?}", del, want_del);
    Ok(())
}

struct NetObs<'a> {
    sys: &'a SysDesc,
    cov: &'a mut Cov,
    sys_hash: u64,
    err: Option<Fail>,
    dropped_dup: std::collections::HashSet<(usize, usize, u8)>,
}
impl<'a> Observer for NetObs<'a> {
    fn state(&mut self, real: &RealState, r: &RState) {
        if self.err.is_none() {
            if let Err(f) = check_network_api(&real.network, &r.net) {
                self.err = Some(f);
            }
        }
        self.cov.eval();
        let interesting = match &r.net {
            RNet::Ordered(f) => {
                let mx = f.values().map(|q| q.len()).max().unwrap_or(0);
                self.cov.label_if(mx >= 3, "fifo>=3");
                self.cov.label_if(f.len() >= 2, "two_flows");
                self.cov.label_if(f.values().any(|q| q.len() >= 2 && q[0] == q[1]), "identical_copies_ordered");
                mx >= 2
            }
            RNet::NonDup(c) => {
                let mx = c.values().copied().max().unwrap_or(0);
                self.cov.label_if(mx >= 2, "identical_copies_nondup");
                self.cov.label_if(c.len() >= 2, "two_envelopes_nondup");
                mx >= 2 || c.len() >= 2
            }
            RNet::Dup(l, last) => {
                self.cov.label_if(last.is_some() && !l.contains(&last.unwrap()), "dup_last_delivered_was_dropped");
                self.cov.label_if(l.len() >= 2, "two_envelopes_dup");
                l.len() >= 2
            }
        };
        if interesting {
            self.cov.nontrivial(&(self.sys_hash, &r.net));
            if self.cov.wants_sample() && self.cov.evaluations % 53 == 0 {
                self.cov.sample(json!({"system_net": self.sys.net, "lossy": self.sys.lossy, "network": format!("{:?}", r.net), "len": real.network.len()}));
            }
        }
    }
    fn transition(&mut self, from: &RState, a: &RAct, to: Option<&RState>) {
        if let (RAct::Drop(s, d, m), RNet::Dup(..)) = (a, &from.net) {
            self.dropped_dup.insert((*s, *d, *m));
            self.cov.label("drop_duplicating");
        }
        if let (Some(to), RNet::Dup(l0, _)) = (to, &from.net) {
            if let RNet::Dup(l1, _) = &to.net {
                if l1.difference(l0).any(|e| self.dropped_dup.contains(e)) {
                    self.cov.label("drop_then_resend");
                }
            }
        }
        match a {
            RAct::Drop(..) => self.cov.label("drop"),
            RAct::Deliver(..) if to.is_some() => self.cov.label("deliver"),
            _ => {}
        }
    }
}

pub struct Transport;
impl SubCheck for Transport {
    fn fuzzable(&self) -> bool {
        true
    }
    type Case = SysDesc;
    fn name(&self) -> &'static str {
        "transport_along_all_paths"
    }
    fn cases(&self, tier: Tier) -> u32 {
        tier.pick(2500, 30000)
    }
    fn strategy(&self, _tier: Tier) -> BoxedStrategy<SysDesc> {
        let mut p = SysParams::general();
        p.w = [8, 1, 0, 1, 0];
        p.max_cmds = 3;
        p.crashes = false;
        p.max_init_env = 3;
        p.density = 200;
        sys_strategy(p).prop_map(|mut s| {
            s.hist.net_bound = 5;
            s
        }).boxed()
    }
    fn check(&self, sys: &SysDesc, cov: &mut Cov) -> Result<(), Fail> {
        let model = sys.real_model();
        let mut obs = NetObs { sys, cov, sys_hash: hash_of(sys), err: None, dropped_dup: Default::default() };
        let res = explore_diff(&model, sys, &|s: &u8| *s, 300, &mut obs);
        if let Some(f) = obs.err.take() {
            return Err(f);
        }
        res.map_err(|f| Fail::new(format!("c07/{}", f.sig), f.detail))?;
        cov.label(match (sys.net, sys.lossy) {
            (NetKind::Ordered, false) => "ordered",
            (NetKind::Ordered, true) => "ordered_lossy",
            (NetKind::NonDup, false) => "nondup",
            (NetKind::NonDup, true) => "nondup_lossy",
            (NetKind::Dup, false) => "dup",
            (NetKind::Dup, true) => "dup_lossy",
        });
        Ok(())
    }
    fn mandatory(&self) -> Vec<&'static str> {
        vec!["fifo>=3", "two_flows", "identical_copies_ordered", "identical_copies_nondup", "drop_then_resend", "ordered", "ordered_lossy", "nondup", "nondup_lossy", "dup", "dup_lossy", "drop", "deliver"]
    }
}

#[derive(Clone, Debug, Serialize, Deserialize)]
pub struct NetCase {
    pub kind: NetKind,
    pub envs: Vec<(usize, usize, u8)>,
    pub last: Option<(usize, usize, u8)>,
}

/// Networks built directly by the public constructors.
pub struct Constructed;
impl SubCheck for Constructed {
    fn fuzzable(&self) -> bool {
        true
    }
    type Case = NetCase;
    fn name(&self) -> &'static str {
        "constructed_networks_api"
    }
    fn cases(&self, tier: Tier) -> u32 {
        tier.pick(60000, 1000000)
    }
    fn strategy(&self, _tier: Tier) -> BoxedStrategy<NetCase> {
        let env = || (0usize..3, 0usize..3, 0u8..3);
        (prop_oneof![Just(NetKind::Ordered), Just(NetKind::NonDup), Just(NetKind::Dup)], proptest::collection::vec(env(), 0..8), proptest::option::of(env()))
            .prop_map(|(kind, envs, last)| NetCase { kind, envs, last })
            .boxed()
    }
    fn check(&self, c: &NetCase, cov: &mut Cov) -> Result<(), Fail> {
        let envs = c.envs.iter().map(env_of);
        let mut want = RNet::new(c.kind);
        for (s, d, m) in &c.envs {
            want.send(*s, *d, *m);
        }
        let net = match c.kind {
            NetKind::Ordered => Network::new_ordered(envs),
            NetKind::NonDup => Network::new_unordered_nonduplicating(envs),
            NetKind::Dup => {
                if let RNet::Dup(_, l) = &mut want {
                    *l = c.last;
                }
                match c.last {
                    None => Network::new_unordered_duplicating(envs),
                    Some(l) => Network::new_unordered_duplicating_with_last_msg(envs, Some(env_of(&l))),
                }
            }
        };
        cov.eval();
        check_network_api(&net, &want)?;
        // renaming actor ids (what symmetry reduction does to a state) neither loses nor adds a
        // message: under the identity plan the network is unchanged, under a reversal the
        // contents are the renamed contents
        {
            use stateright::actor::Id;
            use stateright::{Rewrite, RewritePlan};
            let ids = c.envs.iter().flat_map(|(s, d, _)| [*s, *d]).chain(c.last.iter().flat_map(|(s, d, _)| [*s, *d])).max().map_or(1, |m| m + 1);
            let identity: RewritePlan<Id, _> = RewritePlan::from_values_to_sort(&(0..ids).collect::<Vec<_>>());
            let same = net.rewrite(&identity);
            check_network_api(&same, &want).map_err(|f| Fail::new(format!("{}/after-identity-rewrite", f.sig), f.detail))?;
            let reversal: RewritePlan<Id, _> = RewritePlan::from_values_to_sort(&(0..ids).rev().collect::<Vec<_>>());
            let renamed = net.rewrite(&reversal);
            let mut want_renamed = RNet::new(c.kind);
            for (s, d, m) in &c.envs {
                want_renamed.send(ids - 1 - s, ids - 1 - d, *m);
            }
            if let RNet::Dup(_, l) = &mut want_renamed {
                *l = c.last.map(|(s, d, m)| (ids - 1 - s, ids - 1 - d, m));
            }
            check_network_api(&renamed, &want_renamed).map_err(|f| Fail::new(format!("{}/after-renaming-rewrite", f.sig), f.detail))?;
        }
        let dup_copies = {
            let mut v = c.envs.clone();
            v.sort();
            v.windows(2).any(|w| w[0] == w[1])
        };
        cov.label(match c.kind {
            NetKind::Ordered => "ordered",
            NetKind::NonDup => "nondup",
            NetKind::Dup => "dup",
        });
        cov.label_if(dup_copies, "identical_copies");
        if c.envs.len() >= 2 {
            cov.nontrivial(&(c.kind, &c.envs, c.last));
            if cov.wants_sample() {
                cov.sample(json!({"kind": c.kind, "envelopes": c.envs, "len": net.len()}));
            }
        }
        if net.len() == usize::MAX {
            fail!("c07/unreachable", "");
        }
        Ok(())
    }
    fn mandatory(&self) -> Vec<&'static str> {
        vec!["ordered", "nondup", "dup", "identical_copies"]
    }
}

pub fn spec() -> PropSpec {
    PropSpec {
        id: "C07",
        level: "exploration",
        rule: "Cases = generated actor systems biased to scripted senders (several messages per flow, repeated identical messages, several flows, initial envelopes; three network kinds x lossy) explored by the differential driver: an independent network model (FIFO queue per flow / multiset / live set + last delivered) is advanced along every explored path and compared with the real network after every step, and Deliver/Drop enabling is compared with it; on every visited network len(), iter_all() (consumed with a cap) and iter_deliverable() must agree with the contents. Plus networks built by the public constructors from generated envelope lists. One evaluation = one visited network. Non-trivial = >= 2 messages in one flow / >= 2 identical copies / >= 2 envelopes; distinct by hash of (system, network contents).",
        assumptions: vec!["network contents are read through the public enum variants, not through the iterators under test"],
        subs: vec![Box::new(Transport), Box::new(Constructed)],
    }
}
