//! C18 (b) — the register harness yields well-formed, faithful histories.

use crate::engine::*;
use crate::refsys::NetKind;
use proptest::prelude::*;
use serde::{Deserialize, Serialize};
use serde_json::json;
use stateright::actor::*;
use stateright::semantics::{ConsistencyTester, LinearizabilityTester, SequentialSpec};
use stateright::Model;
use std::borrow::Cow;
use std::collections::{BTreeMap, BTreeSet, HashSet, VecDeque};
use std::fmt::Debug;
use std::hash::Hash;

#[derive(Clone, Debug, Serialize, Deserialize, PartialEq, Eq, Hash)]
pub struct ServerDesc {
    /// how a Put is answered: 0 immediately, 1 never, 2 after an internal round trip, 3 with PutFail (write-once only; PutOk otherwise)
    pub put_mode: u8,
    /// how a Get is answered: 0 immediately, 1 never, 2 after an internal round trip
    pub get_mode: u8,
    /// answer reads with a value nobody wrote
    pub wrong_value: bool,
}

#[derive(Clone, Debug, Serialize, Deserialize, PartialEq, Eq, Hash)]
pub struct HarnessCase {
    pub write_once: bool,
    pub servers: Vec<ServerDesc>,
    /// put_count of each client
    pub clients: Vec<usize>,
    pub net: NetKind,
    pub lossy: bool,
}

/// What a message is, independent of the register flavour.
#[derive(Clone, Debug, PartialEq, Eq, Hash, PartialOrd, Ord)]
pub enum Kind {
    Internal(u8),
    Put(u64, char),
    Get(u64),
    PutOk(u64),
    PutFail(u64),
    GetOk(u64, char),
}

#[derive(Clone, Debug, PartialEq, Hash)]
pub enum HEv<Op, Ret> {
    Inv(Id, Op),
    Ret(Id, Ret),
}

/// A `ConsistencyTester` that only records what it is told, and whether that is well-formed;
/// carries the real linearizability tester and a raw log of every message the hooks saw.
#[derive(Clone, Debug, PartialEq, Hash)]
pub struct RecHist<S: SequentialSpec>
where
    S::Op: Clone + Debug + PartialEq + Hash,
    S::Ret: Clone + Debug + PartialEq + Hash,
    S: Clone + Debug + PartialEq + Hash,
{
    pub events: Vec<HEv<S::Op, S::Ret>>,
    pub outstanding: BTreeSet<Id>,
    pub ill_formed: Option<String>,
    pub real: LinearizabilityTester<Id, S>,
    /// (delivered?, src, dst, message)
    pub raw: Vec<(bool, Id, Id, Kind)>,
}
// (the operation/return enums of the provided specifications derive PartialEq only; their
// equality is total for `char` values)
impl<S> Eq for RecHist<S>
where
    S: SequentialSpec + Clone + Debug + PartialEq + Hash,
    S::Op: Clone + Debug + PartialEq + Hash,
    S::Ret: Clone + Debug + PartialEq + Hash,
{
}
impl<S> ConsistencyTester<Id, S> for RecHist<S>
where
    S: SequentialSpec + Clone + Debug + PartialEq + Hash,
    S::Op: Clone + Debug + PartialEq + Hash,
    S::Ret: Clone + Debug + PartialEq + Hash,
{
    fn on_invoke(&mut self, t: Id, op: S::Op) -> Result<&mut Self, String> {
        if !self.outstanding.insert(t) && self.ill_formed.is_none() {
            self.ill_formed = Some(format!("on_invoke({:?}, {:?}) while an operation of that thread is outstanding", t, op));
        }
        let _ = self.real.on_invoke(t, op.clone());
        self.events.push(HEv::Inv(t, op));
        Ok(self)
    }
    fn on_return(&mut self, t: Id, ret: S::Ret) -> Result<&mut Self, String> {
        if !self.outstanding.remove(&t) && self.ill_formed.is_none() {
            self.ill_formed = Some(format!("on_return({:?}, {:?}) without an outstanding operation of that thread", t, ret));
        }
        let _ = self.real.on_return(t, ret.clone());
        self.events.push(HEv::Ret(t, ret));
        Ok(self)
    }
    fn is_consistent(&self) -> bool {
        self.real.is_consistent()
    }
}

macro_rules! harness_flavour {
    ($modname:ident, $Msg:ident, $ActorT:ident, $StateT:ident, $Spec:ident, $Op:ident, $Ret:ident, $msgpath:path, $specpath:path, $extra:ident, $has_fail:expr) => {
        pub mod $modname {
            use super::$extra::*;
            use super::*;
            use $msgpath::{$ActorT, $StateT, $Msg};
            use $specpath::{$Op, $Ret, $Spec};
            pub type M = $Msg<u64, char, u8>;
            pub type H = RecHist<$Spec<char>>;

            pub fn kind(m: &M) -> Kind {
                #[allow(unreachable_patterns)]
                match m {
                    $Msg::Internal(k) => Kind::Internal(*k),
                    $Msg::Put(r, v) => Kind::Put(*r, *v),
                    $Msg::Get(r) => Kind::Get(*r),
                    $Msg::PutOk(r) => Kind::PutOk(*r),
                    $Msg::GetOk(r, v) => Kind::GetOk(*r, *v),
                    other => kind_extra(other),
                }
            }

            /// A server that answers each request at most once.
            #[derive(Clone)]
            pub struct Srv(pub ServerDesc);
            #[derive(Clone, Debug, PartialEq, Eq, Hash)]
            pub struct SrvState {
                pub answered: BTreeSet<(Id, u64)>,
                pub deferred: Vec<(Id, M)>,
                pub value: char,
            }
            impl Srv {
                fn answer(&self, st: &mut SrvState, src: Id, m: &M, o: &mut Out<Self>) {
                    match kind(m) {
                        Kind::Put(r, v) => {
                            if st.answered.insert((src, r)) {
                                if self.0.put_mode == 3 && $has_fail {
                                    o.send(src, put_fail(r));
                                } else {
                                    st.value = v;
                                    o.send(src, $Msg::PutOk(r));
                                }
                            }
                        }
                        Kind::Get(r) => {
                            if st.answered.insert((src, r)) {
                                o.send(src, $Msg::GetOk(r, if self.0.wrong_value { '?' } else { st.value }));
                            }
                        }
                        _ => {}
                    }
                }
            }
            impl Actor for Srv {
                type Msg = M;
                type State = SrvState;
                type Timer = ();
                type Random = ();
                fn on_start(&self, _: Id, _: &mut Out<Self>) -> SrvState {
                    SrvState { answered: BTreeSet::new(), deferred: vec![], value: '_' }
                }
                fn on_msg(&self, id: Id, s: &mut Cow<SrvState>, src: Id, m: M, o: &mut Out<Self>) {
                    let k = kind(&m);
                    let mode = match k {
                        Kind::Put(..) => self.0.put_mode,
                        Kind::Get(..) => self.0.get_mode,
                        Kind::Internal(_) => {
                            // the internal round trip came back: answer the oldest deferred request
                            if !s.deferred.is_empty() {
                                let st = s.to_mut();
                                let (src, m) = st.deferred.remove(0);
                                self.answer(st, src, &m, o);
                            }
                            return;
                        }
                        _ => return,
                    };
                    let req = match k {
                        Kind::Put(r, _) | Kind::Get(r) => r,
                        _ => return,
                    };
                    if s.answered.contains(&(src, req)) || s.deferred.iter().any(|(d, dm)| *d == src && kind(dm) == k) {
                        return; // a duplicate of a request already seen
                    }
                    match mode {
                        1 => {
                            // never answered, but remembered so that a duplicate is not answered either
                            s.to_mut().answered.insert((src, req));
                        }
                        2 => {
                            s.to_mut().deferred.push((src, m));
                            o.send(id, $Msg::Internal(0));
                        }
                        _ => {
                            let st = s.to_mut();
                            self.answer(st, src, &m, o);
                        }
                    }
                }
            }

            fn rec_in(_: &(), h: &H, e: Envelope<&M>) -> Option<H> {
                let mut h2 = $Msg::record_returns(&(), h, e).unwrap_or_else(|| h.clone());
                h2.raw.push((true, e.src, e.dst, kind(e.msg)));
                Some(h2)
            }
            fn rec_out(_: &(), h: &H, e: Envelope<&M>) -> Option<H> {
                let mut h2 = $Msg::record_invocations(&(), h, e).unwrap_or_else(|| h.clone());
                h2.raw.push((false, e.src, e.dst, kind(e.msg)));
                Some(h2)
            }

            pub fn run(c: &HarnessCase, cov: &mut Cov) -> Result<(), Fail> {
                let ns = c.servers.len();
                let init_hist = H { events: vec![], outstanding: BTreeSet::new(), ill_formed: None, real: LinearizabilityTester::new($Spec::default()), raw: vec![] };
                let net: Network<M> = match c.net {
                    NetKind::Ordered => Network::new_ordered([]),
                    NetKind::NonDup => Network::new_unordered_nonduplicating([]),
                    NetKind::Dup => Network::new_unordered_duplicating([]),
                };
                let mut model: ActorModel<$ActorT<Srv>, (), H> = ActorModel::new((), init_hist).init_network(net).lossy_network(if c.lossy { LossyNetwork::Yes } else { LossyNetwork::No }).record_msg_in(rec_in).record_msg_out(rec_out);
                for s in &c.servers {
                    model = model.actor($ActorT::Server(Srv(s.clone())));
                }
                for pc in &c.clients {
                    model = model.actor($ActorT::Client { put_count: *pc, server_count: ns });
                }
                let mut seen: HashSet<ActorModelState<$ActorT<Srv>, H>> = HashSet::new();
                let mut queue = VecDeque::new();
                for s in model.init_states() {
                    seen.insert(s.clone());
                    queue.push_back(s);
                }
                let mut replies_delivered = false;
                let mut max_ops = 0usize;
                while let Some(st) = queue.pop_front() {
                    cov.eval();
                    let h = &st.history;
                    // (1) the recorded history is well-formed
                    if let Some(why) = &h.ill_formed {
                        return Err(Fail::new("c18/harness/recorded-history-ill-formed", format!("{}; recorded events {:?}; raw messages {:?}", why, h.events, h.raw)));
                    }
                    for (ci, _) in c.clients.iter().enumerate() {
                        let id = Id::from(ns + ci);
                        let awaiting = match &*st.actor_states[ns + ci] {
                            $StateT::Client { awaiting, .. } => *awaiting,
                            _ => None,
                        };
                        // (2) at most one operation outstanding, exactly when the client awaits a reply
                        let outstanding = h.outstanding.contains(&id);
                        if outstanding != awaiting.is_some() {
                            return Err(Fail::new("c18/harness/outstanding-operation-mismatch", format!("client {:?}: awaiting={:?} but the recorded history has {} outstanding operation; events {:?}", id, awaiting, if outstanding { "an" } else { "no" }, h.events)));
                        }
                        // (3) the recorded operations mirror the client-visible calls and replies
                        let mut want: Vec<HEv<$Op<char>, $Ret<char>>> = vec![];
                        let mut req_ids = vec![];
                        let mut awaiting_now: Option<u64> = None;
                        for (delivered, src, dst, k) in &h.raw {
                            match (delivered, k) {
                                (false, Kind::Put(r, v)) if *src == id => {
                                    want.push(HEv::Inv(id, $Op::Write(*v)));
                                    req_ids.push(*r);
                                    awaiting_now = Some(*r);
                                }
                                (false, Kind::Get(r)) if *src == id => {
                                    want.push(HEv::Inv(id, $Op::Read));
                                    req_ids.push(*r);
                                    awaiting_now = Some(*r);
                                }
                                // a reply counts when it is delivered to the client while it awaits that request
                                (true, Kind::PutOk(r)) if *dst == id && awaiting_now == Some(*r) => {
                                    want.push(HEv::Ret(id, $Ret::WriteOk));
                                    awaiting_now = None;
                                    replies_delivered = true;
                                }
                                (true, Kind::PutFail(r)) if *dst == id && awaiting_now == Some(*r) => {
                                    want.push(HEv::Ret(id, write_fail()));
                                    awaiting_now = None;
                                    replies_delivered = true;
                                }
                                (true, Kind::GetOk(r, v)) if *dst == id && awaiting_now == Some(*r) => {
                                    want.push(HEv::Ret(id, read_ok(*v)));
                                    awaiting_now = None;
                                    replies_delivered = true;
                                }
                                _ => {}
                            }
                        }
                        let got: Vec<_> = h.events.iter().filter(|e| matches!(e, HEv::Inv(t, _) | HEv::Ret(t, _) if *t == id)).cloned().collect();
                        if got != want {
                            return Err(Fail::new("c18/harness/history-does-not-mirror-client", format!("client {:?}: recorded {:?}, but the client sent/accepted {:?} (raw messages {:?})", id, got, want, h.raw)));
                        }
                        max_ops = max_ops.max(req_ids.len());
                        let distinct: BTreeSet<u64> = req_ids.iter().copied().collect();
                        if distinct.len() != req_ids.len() {
                            return Err(Fail::new("c18/harness/request-id-reused", format!("client {:?} used request ids {:?}", id, req_ids)));
                        }
                    }
                    if seen.len() >= 40000 {
                        cov.label("capped");
                        continue;
                    }
                    let mut acts = vec![];
                    model.actions(&st, &mut acts);
                    for a in acts {
                        if let Some(nx) = model.next_state(&st, a) {
                            if seen.insert(nx.clone()) {
                                queue.push_back(nx);
                            }
                        }
                    }
                }
                cov.count("states", seen.len() as u64);
                cov.label(stringify!($modname));
                cov.label(match (c.net, c.lossy) {
                    (NetKind::Ordered, _) => "ordered",
                    (NetKind::NonDup, false) => "nondup",
                    (NetKind::NonDup, true) => "nondup_lossy",
                    (NetKind::Dup, false) => "dup",
                    (NetKind::Dup, true) => "dup_lossy",
                });
                cov.label_if(c.servers.iter().any(|s| s.put_mode == 2 || s.get_mode == 2), "deferred_answer");
                cov.label_if(c.servers.iter().any(|s| s.put_mode == 3) && $has_fail, "put_fail");
                cov.label_if(max_ops >= 3, "client_with_3_operations");
                if c.clients.len() >= 2 && replies_delivered {
                    cov.nontrivial(c);
                    if cov.wants_sample() {
                        cov.sample(json!({"case": c, "states": seen.len()}));
                    }
                }
                Ok(())
            }
        }
    };
}

mod reg_extra {
    use super::Kind;
    use stateright::actor::register::RegisterMsg;
    use stateright::semantics::register::RegisterRet;
    pub fn kind_extra(_m: &RegisterMsg<u64, char, u8>) -> Kind {
        unreachable!()
    }
    pub fn put_fail(r: u64) -> RegisterMsg<u64, char, u8> {
        RegisterMsg::PutOk(r)
    }
    pub fn write_fail() -> RegisterRet<char> {
        RegisterRet::WriteOk
    }
    pub fn read_ok(v: char) -> RegisterRet<char> {
        RegisterRet::ReadOk(v)
    }
}
mod wo_extra {
    use super::Kind;
    use stateright::actor::write_once_register::WORegisterMsg;
    use stateright::semantics::write_once_register::WORegisterRet;
    pub fn kind_extra(m: &WORegisterMsg<u64, char, u8>) -> Kind {
        match m {
            WORegisterMsg::PutFail(r) => Kind::PutFail(*r),
            _ => unreachable!(),
        }
    }
    pub fn put_fail(r: u64) -> WORegisterMsg<u64, char, u8> {
        WORegisterMsg::PutFail(r)
    }
    pub fn write_fail() -> WORegisterRet<char> {
        WORegisterRet::WriteFail
    }
    pub fn read_ok(v: char) -> WORegisterRet<char> {
        WORegisterRet::ReadOk(Some(v))
    }
}
harness_flavour!(register, RegisterMsg, RegisterActor, RegisterActorState, Register, RegisterOp, RegisterRet, stateright::actor::register, stateright::semantics::register, reg_extra, false);
harness_flavour!(write_once_register, WORegisterMsg, WORegisterActor, WORegisterActorState, WORegister, WORegisterOp, WORegisterRet, stateright::actor::write_once_register, stateright::semantics::write_once_register, wo_extra, true);

pub struct Harness;
impl SubCheck for Harness {
    type Case = HarnessCase;
    fn name(&self) -> &'static str {
        "register_harness_histories"
    }
    fn cases(&self, tier: Tier) -> u32 {
        tier.pick(800, 12000)
    }
    fn strategy(&self, _tier: Tier) -> BoxedStrategy<HarnessCase> {
        let server = (0u8..4, 0u8..3, proptest::bool::weighted(0.3)).prop_map(|(put_mode, get_mode, wrong_value)| ServerDesc { put_mode, get_mode, wrong_value });
        (any::<bool>(), proptest::collection::vec(server, 1..=2), proptest::collection::vec(0usize..=2, 1..=3), prop_oneof![Just(NetKind::Ordered), Just(NetKind::NonDup), Just(NetKind::Dup)], any::<bool>())
            .prop_map(|(write_once, servers, mut clients, net, lossy)| {
                // keep the state space small: at most 5 client operations in total
                while clients.iter().map(|p| p + 1).sum::<usize>() > 5 {
                    clients.pop();
                }
                if clients.is_empty() {
                    clients.push(1);
                }
                HarnessCase { write_once, servers, clients, net, lossy }
            })
            .boxed()
    }
    fn check(&self, c: &HarnessCase, cov: &mut Cov) -> Result<(), Fail> {
        if c.write_once {
            write_once_register::run(c, cov)
        } else {
            register::run(c, cov)
        }
    }
    fn mandatory(&self) -> Vec<&'static str> {
        vec!["register", "write_once_register", "ordered", "nondup", "dup", "dup_lossy", "deferred_answer", "put_fail", "client_with_3_operations"]
    }
    fn max_shrink_iters(&self) -> u32 {
        200
    }
}
