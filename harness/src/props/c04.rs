//! C04 — state identity is faithful: distinct states never merge, equal ones never split.

use crate::engine::*;
use crate::rechash::{raw_stream, stream};
use crate::refsys::*;
use crate::runner::*;
use crate::{ensure, fail};
use proptest::prelude::*;
use serde::{Deserialize, Serialize};
use serde_json::json;
use stateright::actor::*;
use stateright::util::{DenseNatMap, HashableHashMap, HashableHashSet, VectorClock};
use stateright::verif_hooks::fingerprint_of;
use std::collections::{BTreeMap, BTreeSet, HashMap};
use std::hash::Hash;
use std::sync::Arc;
use std::time::Duration;

/// The two-directional identity law on one pair.
fn law<T: Hash + PartialEq + std::fmt::Debug>(a: &T, b: &T, equal: bool, what: &str) -> Result<(), Fail> {
    let (sa, sb) = (stream(a), stream(b));
    if equal {
        ensure!(a == b, format!("c04/{}/equal-values-compare-unequal", what), "{:?} and {:?} are the same value built differently but == says unequal", a, b);
        ensure!(sa == sb, format!("c04/{}/equal-values-hash-differently", what), "{:?} and {:?} are equal but feed different bytes to the hasher", a, b);
        ensure!(fingerprint_of(a) == fingerprint_of(b), format!("c04/{}/equal-values-different-fingerprint", what), "{:?} / {:?}", a, b);
    } else {
        ensure!(a != b, format!("c04/{}/different-values-compare-equal", what), "{:?} and {:?} differ but == says equal", a, b);
        ensure!(sa != sb, format!("c04/{}/different-values-hash-identically", what), "{:?} and {:?} differ but feed identical bytes to the hasher (a collision under every hasher)", a, b);
        ensure!(raw_stream(a) != raw_stream(b), format!("c04/{}/different-values-same-byte-stream", what), "{:?} and {:?} differ but feed the same concatenated byte stream to the hasher, only split at other places (a collision under every hasher that ignores write boundaries, e.g. the default SipHash)", a, b);
    }
    Ok(())
}

fn shuffle<T: Clone>(v: &[T], seed: u8) -> Vec<T> {
    let mut out: Vec<T> = v.to_vec();
    let mut x = seed as usize * 2654435761 + 1;
    for i in (1..out.len()).rev() {
        x = x.wrapping_mul(6364136223846793005).wrapping_add(1442695040888963407);
        out.swap(i, (x >> 33) % (i + 1));
    }
    out
}

fn hset(v: &BTreeSet<u8>, how: u8) -> HashableHashSet<u8> {
    let items = shuffle(&v.iter().copied().collect::<Vec<_>>(), how);
    let mut s = match how % 3 {
        0 => HashableHashSet::new(),
        1 => HashableHashSet::with_capacity(64),
        _ => HashableHashSet::with_hasher(ahash::RandomState::with_seeds(how as u64, 7, 11, 13)),
    };
    for i in items {
        s.insert(i);
    }
    s
}
fn hmap(v: &BTreeMap<u8, u8>, how: u8) -> HashableHashMap<u8, u8> {
    let items = shuffle(&v.iter().map(|(k, v)| (*k, *v)).collect::<Vec<_>>(), how);
    let mut s = match how % 3 {
        0 => HashableHashMap::new(),
        1 => HashableHashMap::with_capacity(64),
        _ => HashableHashMap::with_hasher(ahash::RandomState::with_seeds(how as u64, 7, 11, 13)),
    };
    for (k, val) in items {
        s.insert(k, val);
    }
    s
}

#[derive(Clone, Debug, Serialize, Deserialize, PartialEq, Eq, Hash)]
pub struct ContainerCase {
    /// four small sets side by side (used pairwise / nested)
    pub sets: Vec<BTreeSet<u8>>,
    pub maps: Vec<BTreeMap<u8, u8>>,
    /// 0 none (rebuild differently), 1 move an element to the adjacent set, 2 add, 3 remove, 4 move a map entry
    /// to the adjacent map, 5 change a map value, 6 swap two adjacent collections
    pub edit: u8,
    pub at: u8,
    pub how_a: u8,
    pub how_b: u8,
}

#[derive(Hash, PartialEq, Debug)]
struct TwoFields {
    left: HashableHashSet<u8>,
    right: HashableHashSet<u8>,
}

pub struct Containers;
impl SubCheck for Containers {
    fn fuzzable(&self) -> bool {
        true
    }
    type Case = ContainerCase;
    fn name(&self) -> &'static str {
        "hashable_containers"
    }
    fn cases(&self, tier: Tier) -> u32 {
        tier.pick(100000, 1500000)
    }
    fn strategy(&self, _tier: Tier) -> BoxedStrategy<ContainerCase> {
        (
            proptest::collection::vec(proptest::collection::btree_set(0u8..5, 0..4), 4),
            proptest::collection::vec(proptest::collection::btree_map(0u8..4, 0u8..3, 0..3), 4),
            0u8..7,
            any::<u8>(),
            any::<u8>(),
            any::<u8>(),
        )
            .prop_map(|(sets, maps, edit, at, how_a, how_b)| ContainerCase { sets, maps, edit, at, how_a, how_b })
            .boxed()
    }
    fn check(&self, c: &ContainerCase, cov: &mut Cov) -> Result<(), Fail> {
        let mut sets2 = c.sets.clone();
        let mut maps2 = c.maps.clone();
        let i = idx8(c.at, 3); // adjacent pair (i, i+1)
        let mut class = "insertion_order";
        match c.edit {
            1 => {
                if let Some(e) = sets2[i].iter().next().copied() {
                    sets2[i].remove(&e);
                    sets2[i + 1].insert(e);
                    class = "adjacent_collections";
                }
            }
            2 => {
                sets2[i].insert(c.how_b % 6);
                class = "element_added";
            }
            3 => {
                if let Some(e) = sets2[i].iter().next().copied() {
                    sets2[i].remove(&e);
                    class = "element_removed";
                }
            }
            4 => {
                if let Some((k, v)) = maps2[i].iter().next().map(|(k, v)| (*k, *v)) {
                    maps2[i].remove(&k);
                    maps2[i + 1].insert(k, v);
                    class = "adjacent_collections";
                }
            }
            5 => {
                if let Some(k) = maps2[i].keys().next().copied() {
                    *maps2[i].get_mut(&k).unwrap() += 1;
                    class = "map_value_changed";
                }
            }
            6 => {
                sets2.swap(i, i + 1);
                maps2.swap(i, i + 1);
                class = "collections_swapped";
            }
            _ => {}
        }
        let eq_sets = sets2 == c.sets;
        let eq_maps = maps2 == c.maps;
        cov.eval();
        // single collections
        law(&hset(&c.sets[i], c.how_a), &hset(&sets2[i], c.how_b), c.sets[i] == sets2[i], "set")?;
        law(&hmap(&c.maps[i], c.how_a), &hmap(&maps2[i], c.how_b), c.maps[i] == maps2[i], "map")?;
        // side by side: tuple, Vec, struct
        let t1 = (hset(&c.sets[i], c.how_a), hset(&c.sets[i + 1], c.how_a));
        let t2 = (hset(&sets2[i], c.how_b), hset(&sets2[i + 1], c.how_b));
        law(&t1, &t2, (&c.sets[i], &c.sets[i + 1]) == (&sets2[i], &sets2[i + 1]), "tuple-of-sets")?;
        let v1: Vec<_> = c.sets.iter().map(|s| hset(s, c.how_a)).collect();
        let v2: Vec<_> = sets2.iter().map(|s| hset(s, c.how_b)).collect();
        law(&v1, &v2, eq_sets, "vec-of-sets")?;
        let s1 = TwoFields { left: hset(&c.sets[i], c.how_a), right: hset(&c.sets[i + 1], c.how_a) };
        let s2 = TwoFields { left: hset(&sets2[i], c.how_b), right: hset(&sets2[i + 1], c.how_b) };
        law(&s1, &s2, (&c.sets[i], &c.sets[i + 1]) == (&sets2[i], &sets2[i + 1]), "struct-of-sets")?;
        let m1: Vec<_> = c.maps.iter().map(|s| hmap(s, c.how_a)).collect();
        let m2: Vec<_> = maps2.iter().map(|s| hmap(s, c.how_b)).collect();
        law(&m1, &m2, eq_maps, "vec-of-maps")?;
        let tm1 = (hmap(&c.maps[i], c.how_a), hmap(&c.maps[i + 1], c.how_a));
        let tm2 = (hmap(&maps2[i], c.how_b), hmap(&maps2[i + 1], c.how_b));
        law(&tm1, &tm2, (&c.maps[i], &c.maps[i + 1]) == (&maps2[i], &maps2[i + 1]), "tuple-of-maps")?;
        // nested: set of sets, map of sets
        let nest = |sets: &Vec<BTreeSet<u8>>, how: u8| -> HashableHashSet<HashableHashSet<u8>> { shuffle(sets, how).iter().map(|s| hset(s, how)).collect() };
        let as_set = |sets: &Vec<BTreeSet<u8>>| -> BTreeSet<BTreeSet<u8>> { sets.iter().cloned().collect() };
        law(&nest(&c.sets, c.how_a), &nest(&sets2, c.how_b), as_set(&c.sets) == as_set(&sets2), "set-of-sets")?;
        let mnest = |sets: &Vec<BTreeSet<u8>>, how: u8| -> HashableHashMap<u8, HashableHashSet<u8>> { shuffle(&sets.iter().enumerate().collect::<Vec<_>>(), how).into_iter().map(|(k, s)| (k as u8, hset(s, how))).collect() };
        law(&mnest(&c.sets, c.how_a), &mnest(&sets2, c.how_b), eq_sets, "map-of-sets")?;
        // Timers side by side (the timers of neighbouring actors)
        let timers = |sets: &Vec<BTreeSet<u8>>, how: u8| -> Vec<Timers<u8>> {
            sets.iter()
                .map(|s| {
                    let mut t = Timers::new();
                    for x in shuffle(&s.iter().copied().collect::<Vec<_>>(), how) {
                        t.set(x);
                    }
                    t
                })
                .collect()
        };
        law(&timers(&c.sets, c.how_a), &timers(&sets2, c.how_b), eq_sets, "vec-of-timers")?;
        cov.label(class);
        if class != "insertion_order" || c.how_a != c.how_b {
            cov.nontrivial(c);
            if cov.wants_sample() {
                cov.sample(json!({"sets": c.sets, "sets_after_edit": sets2, "maps": c.maps, "maps_after_edit": maps2, "class": class}));
            }
        }
        Ok(())
    }
    fn mandatory(&self) -> Vec<&'static str> {
        vec!["adjacent_collections", "insertion_order", "element_added", "element_removed", "map_value_changed", "collections_swapped"]
    }
}

// ---------------------------------------------------------------------------------------------
// Actor-system states assembled from public fields, and their near misses
// ---------------------------------------------------------------------------------------------

#[derive(Clone, Debug, Serialize, Deserialize, PartialEq, Eq, Hash)]
pub struct StateCase {
    pub actors: Vec<u8>,
    pub timers: Vec<BTreeSet<u8>>,
    pub choices: Vec<BTreeMap<u8, Vec<u8>>>,
    pub crashed: Vec<bool>,
    pub history: Vec<(bool, usize, usize, u8)>,
    pub net: NetKind,
    pub envs: Vec<(usize, usize, u8)>,
    pub last: Option<(usize, usize, u8)>,
    pub edit: u8,
    pub at: u8,
    pub val: u8,
    pub how_a: u8,
    pub how_b: u8,
}

#[derive(Clone, Debug, PartialEq)]
struct Proto {
    actors: Vec<u8>,
    timers: Vec<BTreeSet<u8>>,
    choices: Vec<BTreeMap<u8, Vec<u8>>>,
    crashed: Vec<bool>,
    history: Vec<(bool, usize, usize, u8)>,
    net: RNet,
}

fn proto(c: &StateCase) -> Proto {
    let n = c.actors.len();
    let mut net = RNet::new(c.net);
    for (s, d, m) in &c.envs {
        net.send(s % n, d % n, *m);
    }
    if let RNet::Dup(_, l) = &mut net {
        *l = c.last.map(|(s, d, m)| (s % n, d % n, m));
    }
    let fit = |v: &Vec<BTreeSet<u8>>| (0..n).map(|i| v.get(i).cloned().unwrap_or_default()).collect();
    Proto {
        actors: c.actors.clone(),
        timers: fit(&c.timers),
        choices: (0..n).map(|i| c.choices.get(i).cloned().unwrap_or_default()).collect(),
        crashed: (0..n).map(|i| c.crashed.get(i).copied().unwrap_or(false)).collect(),
        history: c.history.clone(),
        net,
    }
}

fn real_state(p: &Proto, how: u8) -> ActorModelState<TActor, Hist> {
    let envs = shuffle_keep_flow_order(&p.net, how);
    let network = match &p.net {
        RNet::Ordered(_) => Network::new_ordered(envs.iter().map(env_of)),
        RNet::NonDup(_) => Network::new_unordered_nonduplicating(envs.iter().map(env_of)),
        RNet::Dup(_, last) => Network::new_unordered_duplicating_with_last_msg(envs.iter().map(env_of), last.as_ref().map(env_of)),
    };
    ActorModelState {
        actor_states: p.actors.iter().map(|a| Arc::new(*a)).collect(),
        network,
        timers_set: p
            .timers
            .iter()
            .map(|t| {
                let mut x = Timers::new();
                for v in shuffle(&t.iter().copied().collect::<Vec<_>>(), how) {
                    x.set(v);
                }
                x
            })
            .collect(),
        random_choices: p
            .choices
            .iter()
            .map(|c| {
                let mut x = RandomChoices::default();
                for (k, v) in shuffle(&c.iter().collect::<Vec<_>>(), how) {
                    x.insert(key_name(*k), v.clone());
                }
                x
            })
            .collect(),
        crashed: p.crashed.clone(),
        history: p.history.clone(),
    }
}

/// All messages of the reference network in an order that is shuffled across flows but keeps
/// each flow's order (so that an ordered network is rebuilt to the same value).
fn shuffle_keep_flow_order(net: &RNet, how: u8) -> Vec<(usize, usize, u8)> {
    match net {
        RNet::Ordered(f) => {
            let mut queues: Vec<Vec<(usize, usize, u8)>> = f.iter().map(|((s, d), q)| q.iter().map(|m| (*s, *d, *m)).collect()).collect();
            queues = shuffle(&queues, how);
            let mut out = vec![];
            let mut k = how as usize;
            while queues.iter().any(|q| !q.is_empty()) {
                k = k.wrapping_mul(31).wrapping_add(7);
                let live: Vec<usize> = (0..queues.len()).filter(|i| !queues[*i].is_empty()).collect();
                let pick = live[k % live.len()];
                out.push(queues[pick].remove(0));
            }
            out
        }
        other => shuffle(&other.all(), how),
    }
}

pub struct States;
impl SubCheck for States {
    fn fuzzable(&self) -> bool {
        true
    }
    type Case = StateCase;
    fn name(&self) -> &'static str {
        "actor_model_state_near_misses"
    }
    fn cases(&self, tier: Tier) -> u32 {
        tier.pick(150000, 2000000)
    }
    fn strategy(&self, _tier: Tier) -> BoxedStrategy<StateCase> {
        (1usize..4)
            .prop_flat_map(|n| {
                (
                    proptest::collection::vec(0u8..3, n),
                    proptest::collection::vec(proptest::collection::btree_set(0u8..3, 0..3), n),
                    proptest::collection::vec(proptest::collection::btree_map(0u8..2, proptest::collection::vec(0u8..3, 1..3), 0..3), n),
                    proptest::collection::vec(proptest::bool::weighted(0.25), n),
                    proptest::collection::vec((any::<bool>(), 0..n, 0..n, 0u8..3), 0..3),
                    prop_oneof![Just(NetKind::Ordered), Just(NetKind::NonDup), Just(NetKind::Dup)],
                    proptest::collection::vec((0..n, 0..n, 0u8..3), 0..4),
                    proptest::option::of((0..n, 0..n, 0u8..3)),
                    (0u8..12, any::<u8>(), any::<u8>(), any::<u8>(), any::<u8>()),
                )
            })
            .prop_map(|(actors, timers, choices, crashed, history, net, envs, last, (edit, at, val, how_a, how_b))| StateCase { actors, timers, choices, crashed, history, net, envs, last, edit, at, val, how_a, how_b })
            .boxed()
    }
    fn check(&self, c: &StateCase, cov: &mut Cov) -> Result<(), Fail> {
        // a wide system (more actors than bits in a machine word): one crash flag apart, or one
        // timer apart, at any actor index
        if c.val % 8 == 0 {
            let wide = 65 + (c.at as usize % 24);
            let quiet = Proto {
                actors: vec![c.actors[0]; wide],
                timers: vec![BTreeSet::new(); wide],
                choices: vec![Default::default(); wide],
                crashed: vec![false; wide],
                history: vec![],
                net: RNet::new(c.net),
            };
            let k = (c.at as usize).wrapping_mul(37) % wide;
            let mut down = quiet.clone();
            down.crashed[k] = true;
            law(&real_state(&quiet, c.how_a), &real_state(&down, c.how_b), false, "actor-model-state/wide-system-crash-flag")?;
            let mut armed = quiet.clone();
            armed.timers[k].insert(1);
            law(&real_state(&quiet, c.how_a), &real_state(&armed, c.how_b), false, "actor-model-state/wide-system-timer")?;
            cov.label("wide_system(>64_actors)");
        }
        let p1 = proto(c);
        let mut p2 = p1.clone();
        let n = p1.actors.len();
        let i = idx8(c.at, n);
        let j = (i + 1) % n;
        let class = match c.edit {
            1 => {
                p2.crashed[i] = !p2.crashed[i];
                "crash_flag"
            }
            2 => {
                // set a timer on the neighbouring actor instead (adjacent collections)
                if let Some(t) = p2.timers[i].iter().next().copied() {
                    p2.timers[i].remove(&t);
                    p2.timers[j].insert(t);
                }
                "timer_moved_to_neighbour"
            }
            3 => {
                let t = c.val % 3;
                if !p2.timers[i].remove(&t) {
                    p2.timers[i].insert(t);
                }
                "timer"
            }
            4 => {
                let k = c.val % 2;
                if p2.choices[i].remove(&k).is_none() {
                    p2.choices[i].insert(k, vec![c.val % 3]);
                }
                "random_choice"
            }
            5 => {
                // the same pending choice, held by the neighbour
                if let Some((k, v)) = p2.choices[i].iter().next().map(|(k, v)| (*k, v.clone())) {
                    p2.choices[i].remove(&k);
                    p2.choices[j].insert(k, v);
                }
                "random_choice_moved_to_neighbour"
            }
            6 => {
                if let Some(k) = p2.choices[i].keys().next().copied() {
                    p2.choices[i].get_mut(&k).unwrap().push(c.val % 3);
                }
                "random_choice_altered"
            }
            7 => {
                p2.net.send(i, j, c.val % 3);
                "in_flight_message"
            }
            8 => {
                p2.actors[i] = (p2.actors[i] + 1) % 3;
                "actor_state"
            }
            9 => {
                p2.history.push((c.val % 2 == 0, i, j, c.val % 3));
                "history"
            }
            10 => {
                if let RNet::Dup(_, l) = &mut p2.net {
                    *l = match l {
                        None => Some((i, j, c.val % 3)),
                        Some(_) => None,
                    };
                }
                "last_delivered"
            }
            _ => "rebuilt_in_another_order",
        };
        let equal = p1 == p2;
        let a = real_state(&p1, c.how_a);
        let b = real_state(&p2, c.how_b);
        cov.eval();
        law(&a, &b, equal, "actor-model-state")?;
        // the parts on their own, too
        law(&a.network, &b.network, p1.net == p2.net, "network")?;
        law(&a.timers_set, &b.timers_set, p1.timers == p2.timers, "timers")?;
        law(&a.random_choices, &b.random_choices, p1.choices == p2.choices, "random-choices")?;
        if equal {
            cov.label("equal_pair");
        } else {
            cov.label(class);
        }
        cov.nontrivial(c);
        if cov.wants_sample() && !equal {
            cov.sample(json!({"class": class, "a": format!("{:?}", a), "b": format!("{:?}", b)}));
        }
        Ok(())
    }
    fn mandatory(&self) -> Vec<&'static str> {
        vec!["crash_flag", "timer_moved_to_neighbour", "timer", "random_choice", "random_choice_moved_to_neighbour", "random_choice_altered", "in_flight_message", "actor_state", "history", "last_delivered", "equal_pair"]
    }
}

// ---------------------------------------------------------------------------------------------
// Other identity-bearing values: VectorClock, DenseNatMap, Network via public variants, testers
// ---------------------------------------------------------------------------------------------

#[derive(Clone, Debug, Serialize, Deserialize, PartialEq, Eq, Hash)]
pub struct MiscCase {
    pub a: Vec<u32>,
    pub b: Vec<u32>,
    pub pad_a: u8,
    pub pad_b: u8,
    pub h1: crate::hist::HistCase,
    pub h2: crate::hist::HistCase,
    pub same_history: bool,
}

pub struct Misc;
impl SubCheck for Misc {
    fn fuzzable(&self) -> bool {
        true
    }
    type Case = MiscCase;
    fn name(&self) -> &'static str {
        "clocks_maps_networks_testers"
    }
    fn cases(&self, tier: Tier) -> u32 {
        tier.pick(100000, 1200000)
    }
    fn strategy(&self, _tier: Tier) -> BoxedStrategy<MiscCase> {
        let v = || proptest::collection::vec(0u32..3, 0..5);
        (v(), v(), 0u8..3, 0u8..3, crate::hist::hist_strategy(10), crate::hist::hist_strategy(10), any::<bool>(), any::<bool>())
            .prop_map(|(a, b, pad_a, pad_b, h1, h2, same_values, same_history)| MiscCase { b: if same_values { a.clone() } else { b }, a, pad_a, pad_b, h1, h2, same_history })
            .boxed()
    }
    fn check(&self, c: &MiscCase, cov: &mut Cov) -> Result<(), Fail> {
        use crate::hist::*;
        use crate::props::c08::feed;
        use stateright::semantics::register::Register;
        use stateright::semantics::{LinearizabilityTester, SequentialConsistencyTester};
        cov.eval();
        // vector clocks: equality up to trailing zeros
        let trim = |v: &Vec<u32>| {
            let mut v = v.clone();
            while v.last() == Some(&0) {
                v.pop();
            }
            v
        };
        let pad = |v: &Vec<u32>, k: u8| {
            let mut v = v.clone();
            v.extend(std::iter::repeat(0).take(k as usize));
            v
        };
        let (ca, cb) = (VectorClock::from(pad(&c.a, c.pad_a)), VectorClock::from(pad(&c.b, c.pad_b)));
        law(&ca, &cb, trim(&c.a) == trim(&c.b), "vector-clock")?;
        cov.label_if(trim(&c.a) == trim(&c.b) && (c.pad_a != c.pad_b || c.a != c.b), "trailing_zero");
        // a clock next to another value: the trimmed hash must still delimit
        law(&(ca.clone(), 0u32), &(cb.clone(), 0u32), trim(&c.a) == trim(&c.b), "clock-in-tuple")?;
        // dense maps
        let (da, db): (DenseNatMap<Id, u32>, DenseNatMap<Id, u32>) = (DenseNatMap::from(c.a.clone()), c.b.iter().copied().enumerate().map(|(i, v)| (Id::from(i), v)).rev().collect());
        law(&da, &db, c.a == c.b, "dense-nat-map")?;
        // two maps / two clocks side by side: the same elements split at different places
        // (collections must delimit themselves, or neighbours can trade elements unnoticed)
        {
            let cat: Vec<u32> = c.a.iter().chain(c.b.iter()).map(|v| v + 1).collect();
            let (i, j) = (idx8(c.pad_a.wrapping_mul(97), cat.len() + 1), idx8(c.pad_b.wrapping_mul(89).wrapping_add(c.pad_a), cat.len() + 1));
            let maps = |k: usize| -> (DenseNatMap<Id, u32>, DenseNatMap<Id, u32>) { (DenseNatMap::from(cat[..k].to_vec()), DenseNatMap::from(cat[k..].to_vec())) };
            law(&maps(i), &maps(j), i == j, "adjacent-dense-nat-maps")?;
            let clocks = |k: usize| (VectorClock::from(cat[..k].to_vec()), VectorClock::from(cat[k..].to_vec()));
            law(&clocks(i), &clocks(j), i == j, "adjacent-vector-clocks")?;
            cov.label_if(i != j, "adjacent_collections_split_differently");
        }
        // networks assembled through the public variants (canonical forms only) vs constructors
        let envs: Vec<(usize, usize, u8)> = c.a.iter().enumerate().map(|(i, v)| (i % 2, (*v as usize) % 2, (*v % 3) as u8)).collect();
        let via_ctor = Network::new_unordered_nonduplicating(envs.iter().map(env_of));
        let mut counts: HashableHashMap<Envelope<u8>, usize> = HashableHashMap::new();
        for e in envs.iter().rev() {
            *counts.entry(env_of(e)).or_insert(0) += 1;
        }
        law(&via_ctor, &Network::UnorderedNonDuplicating(counts), true, "network-variant-vs-constructor")?;
        let via_ctor = Network::new_unordered_duplicating(envs.iter().map(env_of));
        let set: HashableHashSet<Envelope<u8>> = envs.iter().rev().map(env_of).collect();
        law(&via_ctor, &Network::UnorderedDuplicating(set, None), true, "network-variant-vs-constructor")?;
        // testers: identity is the recorded history; Hash must be consistent with ==
        let h2 = if c.same_history { &c.h1 } else { &c.h2 };
        let init = Register(0u8);
        let (e1, _) = build_events(&init, &HistCase { kind: 0, ..c.h1.clone() });
        let (e2, _) = build_events(&init, &HistCase { kind: 0, ..h2.clone() });
        let mut l1 = LinearizabilityTester::<u8, Register<u8>>::new(init.clone());
        let mut l2 = l1.clone();
        let l1_well_formed = feed::<Register<u8>, _>(&mut l1, &e1, false).iter().all(|ok| *ok);
        feed::<Register<u8>, _>(&mut l2, &e2, c.same_history);
        law(&l1, &l2, l1 == l2, "linearizability-tester")?;
        // near miss: the same recorded operations, but one tester has been poisoned by an
        // ill-formed event (a return on a thread that never invoked anything)
        {
            use stateright::semantics::register::RegisterRet;
            use stateright::semantics::ConsistencyTester;
            let mut l3 = l1.clone();
            let _ = l3.on_return(200u8, RegisterRet::WriteOk);
            law(&l1, &l3, !l1_well_formed, "linearizability-tester-poisoned-twin")?;
            cov.label_if(l1_well_formed, "tester_and_its_poisoned_twin");
        }
        if c.same_history && e1 == e2 {
            ensure!(l1 == l2, "c04/linearizability-tester/same-history-unequal", "two testers fed the same events (one through on_invret) differ: {:?} vs {:?}", l1, l2);
        }
        let mut s1 = SequentialConsistencyTester::<u8, Register<u8>>::new(init.clone());
        let mut s2 = s1.clone();
        let s1_well_formed = feed::<Register<u8>, _>(&mut s1, &e1, false).iter().all(|ok| *ok);
        feed::<Register<u8>, _>(&mut s2, &e2, c.same_history);
        law(&s1, &s2, s1 == s2, "sequential-consistency-tester")?;
        {
            use stateright::semantics::register::RegisterRet;
            use stateright::semantics::ConsistencyTester;
            let mut s3 = s1.clone();
            let _ = s3.on_return(200u8, RegisterRet::WriteOk);
            law(&s1, &s3, !s1_well_formed, "sequential-consistency-tester-poisoned-twin")?;
        }
        cov.label(if l1 == l2 { "testers_equal" } else { "testers_differ" });
        cov.nontrivial(c);
        if cov.wants_sample() {
            cov.sample(json!({"clock_a": pad(&c.a, c.pad_a), "clock_b": pad(&c.b, c.pad_b), "testers_equal": l1 == l2}));
        }
        Ok(())
    }
    fn mandatory(&self) -> Vec<&'static str> {
        vec!["trailing_zero", "testers_equal", "testers_differ", "adjacent_collections_split_differently", "tester_and_its_poisoned_twin"]
    }
}

// ---------------------------------------------------------------------------------------------
// (b) reachable states of generated actor systems
// ---------------------------------------------------------------------------------------------

pub struct Reachable;
impl SubCheck for Reachable {
    type Case = (SysDesc, bool);
    fn name(&self) -> &'static str {
        "reachable_states_of_actor_systems"
    }
    fn cases(&self, tier: Tier) -> u32 {
        tier.pick(1200, 15000)
    }
    fn strategy(&self, _tier: Tier) -> BoxedStrategy<Self::Case> {
        let mut p = SysParams::general();
        p.w = [3, 3, 1, 3, 1];
        p.density = 120;
        (
            sys_strategy(p).prop_map(|mut s| {
                s.hist.net_bound = 2;
                s.hist.cap = 2;
                s
            }),
            any::<bool>(),
        )
            .boxed()
    }
    fn check(&self, (sys, bfs): &Self::Case, cov: &mut Cov) -> Result<(), Fail> {
        let model = sys.real_model();
        let ex = explore_diff(&model, sys, &|s: &u8| *s, 4000, &mut NoObserver).map_err(|f| Fail::new(format!("c04/{}", f.sig), f.detail))?;
        cov.evals(ex.states.len() as u64);
        // structurally distinct states must feed distinct hasher streams and get distinct fingerprints
        let mut by_stream: HashMap<&Vec<u8>, &RState> = HashMap::new();
        let mut by_fp: HashMap<u64, &RState> = HashMap::new();
        for (k, st) in ex.states.iter().enumerate() {
            let (s, fp) = &ex.identities[k];
            if let Some(other) = by_stream.insert(s, st) {
                fail!(format!("c04/reachable/distinct-states-hash-identically/{}", diff_component(other, st)), "two reachable states differ in {} but feed identical bytes to the hasher:\n {:?}\n {:?}", diff_component(other, st), other, st);
            }
            if let Some(other) = by_fp.insert(*fp, st) {
                fail!("c04/reachable/fingerprint-collision", "two reachable states share fingerprint {}:\n {:?}\n {:?}", fp, other, st);
            }
        }
        if ex.capped || ex.states.is_empty() {
            cov.label("capped_or_empty");
            return Ok(());
        }
        let cfg = RunCfg::plain(if *bfs { Strat::Bfs } else { Strat::Dfs }, 1);
        let out = run_checker(sys.real_model(), &cfg, &[], None, false, Duration::from_secs(120));
        if out.gave_up {
            fail!("inconclusive/workers-did-not-finish", "{:?}", cfg);
        }
        ensure!(out.unique == ex.states.len(), "c04/reachable/checker-merged-or-split-states", "{} structurally distinct states are reachable within the boundary but {} reports unique_state_count={}", ex.states.len(), cfg.strat.label(), out.unique);
        let with_choices = ex.states.iter().any(|s| s.choices.iter().any(|c| !c.is_empty()));
        let with_timers = ex.states.iter().any(|s| s.timers.iter().any(|c| !c.is_empty()));
        let with_crash = ex.states.iter().any(|s| s.crashed.iter().any(|c| *c));
        cov.label_if(with_choices, "space_with_pending_choices");
        cov.label_if(with_timers, "space_with_timers");
        cov.label_if(with_crash, "space_with_crashes");
        if ex.states.len() >= 4 {
            cov.nontrivial(&(sys, bfs));
            if cov.wants_sample() {
                cov.sample(json!({"system": sys, "reachable_states": ex.states.len(), "unique_state_count": out.unique}));
            }
        }
        Ok(())
    }
    fn mandatory(&self) -> Vec<&'static str> {
        vec!["space_with_pending_choices", "space_with_timers", "space_with_crashes"]
    }
}

pub fn spec() -> PropSpec {
    PropSpec {
        id: "C04",
        level: "exploration",
        rule: "Pairs (v1, v2) where v2 is either the same abstract value rebuilt differently (insertion order, capacity, hasher seed, zero padding, constructor vs public variant, on_invret vs on_invoke+on_return) or a near miss produced by one edit (move an element/entry/timer/pending choice to the adjacent collection or neighbouring actor, flip a crash flag, add/remove/alter a pending random choice, add an in-flight message, change actor state/history/last-delivered, swap adjacent collections). The harness decides equality on its own abstract representation; a recording Hasher captures the exact write_* call sequence. Law: equal => == and identical call sequence and equal fingerprint; unequal => != and a different call sequence (identical sequences collide under every hasher). Types: HashableHashSet/Map alone, in tuples, Vecs, a two-field struct, nested; Timers; Network; RandomChoices; VectorClock; DenseNatMap; both testers; ActorModelState. Plus all reachable states of generated actor systems: structurally distinct states have distinct call sequences and fingerprints and spawn_bfs/dfs report exactly that many unique states. Non-trivial = every near-miss pair and every differently-built equal pair; distinct by hash of the case.",
        assumptions: vec!["64-bit fingerprint collisions between *different* call sequences are not considered defects (none observed)"],
        subs: vec![Box::new(Containers), Box::new(States), Box::new(Misc), Box::new(Reachable)],
    }
}
