//! C17 — spawned actors see the same contract over UDP as in the model.

use crate::engine::*;
use crate::{ensure, fail};
use proptest::prelude::*;
use serde::{Deserialize, Serialize};
use serde_json::json;
use stateright::actor::{spawn, Actor, Id, Out};
use std::borrow::Cow;
use std::collections::{BTreeMap, HashMap};
use std::net::{Ipv4Addr, SocketAddr, SocketAddrV4, UdpSocket};
use std::sync::{Arc, Mutex};
use std::time::{Duration, Instant};

// ---------------------------------------------------------------------------------------------
// Pure part: Id <-> IPv4 socket address
// ---------------------------------------------------------------------------------------------

pub struct IdAddr;
impl SubCheck for IdAddr {
    type Case = (u64, [u8; 4], u16);
    fn name(&self) -> &'static str {
        "id_socket_address_bijection"
    }
    fn cases(&self, tier: Tier) -> u32 {
        tier.pick(200000, 2000000)
    }
    fn strategy(&self, _tier: Tier) -> BoxedStrategy<Self::Case> {
        (prop_oneof![any::<u64>().prop_map(|x| x & 0xffff_ffff_ffff), 0u64..70000, Just(0xffff_ffff_ffffu64)], any::<[u8; 4]>(), prop_oneof![any::<u16>(), Just(0u16), Just(65535u16)]).boxed()
    }
    fn check(&self, (raw, ip, port): &Self::Case, cov: &mut Cov) -> Result<(), Fail> {
        cov.eval();
        // ids below 2^48 are built through the two public conversions only
        let hi = Ipv4Addr::new((raw >> 40) as u8, (raw >> 32) as u8, (raw >> 24) as u8, (raw >> 16) as u8);
        let a0 = SocketAddrV4::new(hi, *raw as u16);
        let id0 = Id::from(a0);
        ensure!(SocketAddrV4::from(id0) == a0, "c17/id-addr/address-roundtrip", "{} -> {:?} -> {}", a0, id0, SocketAddrV4::from(id0));
        ensure!(Id::from(SocketAddrV4::from(id0)) == id0, "c17/id-addr/id-roundtrip", "{:?}", id0);
        // small ids as used by models (index -> id) map to distinct addresses
        let small = Id::from((*raw % 70000) as usize);
        ensure!(Id::from(SocketAddrV4::from(small)) == small, "c17/id-addr/small-id-roundtrip", "{:?} -> {} -> {:?}", small, SocketAddrV4::from(small), Id::from(SocketAddrV4::from(small)));
        let a = SocketAddrV4::new(Ipv4Addr::from(*ip), *port);
        let id = Id::from(a);
        ensure!(SocketAddrV4::from(id) == a, "c17/id-addr/address-roundtrip", "{} -> {:?} -> {}", a, id, SocketAddrV4::from(id));
        // injective: a different address gives a different id
        let b = SocketAddrV4::new(Ipv4Addr::from([ip[0], ip[1], ip[2], ip[3].wrapping_add(1)]), *port);
        let c2 = SocketAddrV4::new(Ipv4Addr::from(*ip), port.wrapping_add(1));
        ensure!(Id::from(b) != id && Id::from(c2) != id, "c17/id-addr/not-injective", "{} {} {} map to the same id", a, b, c2);
        ensure!(format!("{}", id) == format!("{}", a), "c17/id-addr/display", "Display of the id {} differs from the address {}", id, a);
        cov.nontrivial(&(raw, ip, port));
        if cov.wants_sample() {
            cov.sample(json!({"address": a.to_string(), "id_debug": format!("{:?}", id)}));
        }
        Ok(())
    }
}

// ---------------------------------------------------------------------------------------------
// Runtime scenarios
// ---------------------------------------------------------------------------------------------

#[derive(Clone, Debug, Serialize, Deserialize, PartialEq, Eq, Hash)]
pub enum SCmd {
    /// send `val` to address-table entry `to`
    Send(usize, u32),
    /// set timer t with range lo..hi milliseconds
    SetTimer(u8, u64, u64),
    CancelTimer(u8),
    /// the handler takes this many milliseconds (a slow handler lets several deadlines pass at once)
    Stall(u64),
}

#[derive(Clone, Debug, Serialize, Deserialize, PartialEq, Eq, Hash)]
pub struct ActorScript {
    pub on_start: Vec<SCmd>,
    /// reaction to a message, selected by `val % reactions.len()`
    pub on_msg: Vec<Vec<SCmd>>,
    /// reaction to timer t
    pub on_timeout: Vec<Vec<SCmd>>,
}

#[derive(Clone, Debug, Serialize, Deserialize, PartialEq, Eq, Hash)]
pub struct Scenario {
    pub actors: Vec<ActorScript>,
    pub peers: usize,
    /// datagrams sent by the harness peers: (offset ms, peer, target actor, Some(val) | None = garbage)
    pub datagrams: Vec<(u64, usize, usize, Option<u32>)>,
    pub run_ms: u64,
    /// a peer keeps sending undecodable datagrams to every actor every ~200 us: they cause no
    /// handler call, but each one makes the runtime's event loop go round once more, at an
    /// arbitrary distance from the next timer deadline
    #[serde(default)]
    pub noise: bool,
}

#[derive(Clone, Debug, Serialize, Deserialize, PartialEq, Eq, Hash)]
pub enum Wire {
    Data(u32),
    /// a large message (values >= 40 travel as blobs of (v - 39) * 2500 bytes)
    Blob(u32, String),
    Poison,
}
pub fn blob(v: u32) -> String {
    let n = (v.saturating_sub(39) as usize) * 2500;
    (0..n).map(|i| (b'a' + ((i as u32 + v) % 26) as u8) as char).collect()
}
pub fn wire(v: u32) -> Wire {
    if v >= 40 {
        Wire::Blob(v, blob(v))
    } else {
        Wire::Data(v)
    }
}

#[derive(Clone, Debug)]
pub enum Ev {
    Start,
    Msg(Id, u32),
    Timeout(u8),
}
#[derive(Clone, Debug)]
pub struct LogEntry {
    pub actor: usize,
    pub ev: Ev,
    pub state_before: Option<u32>,
    pub state_after: u32,
    pub at: Instant,
    pub cmds: Vec<SCmd>,
}

#[derive(Clone)]
pub struct LogActor {
    pub index: usize,
    pub script: ActorScript,
    pub table: Arc<Vec<SocketAddrV4>>,
    pub log: Arc<Mutex<Vec<LogEntry>>>,
}
impl LogActor {
    fn emit(&self, cmds: &[SCmd], o: &mut Out<Self>) {
        for c in cmds {
            match c {
                SCmd::Send(to, v) => o.send(Id::from(self.table[*to % self.table.len()]), wire(*v)),
                SCmd::SetTimer(t, lo, hi) => o.set_timer(*t, Duration::from_millis(*lo)..Duration::from_millis(*hi)),
                SCmd::CancelTimer(t) => o.cancel_timer(*t),
                SCmd::Stall(ms) => std::thread::sleep(Duration::from_millis(*ms)),
            }
        }
    }
}
impl Actor for LogActor {
    type Msg = Wire;
    type State = u32;
    type Timer = u8;
    type Random = ();
    fn on_start(&self, _id: Id, o: &mut Out<Self>) -> u32 {
        self.log.lock().unwrap().push(LogEntry { actor: self.index, ev: Ev::Start, state_before: None, state_after: 1000, at: Instant::now(), cmds: self.script.on_start.clone() });
        self.emit(&self.script.on_start, o);
        1000
    }
    fn on_msg(&self, _id: Id, s: &mut Cow<u32>, src: Id, m: Wire, o: &mut Out<Self>) {
        let at = Instant::now();
        match m {
            Wire::Poison => panic!("poison: actor {} shuts down", self.index),
            Wire::Blob(v, ref body) if *body != blob(v) => {
                // a damaged payload: logged under a value nobody sent, so the matching fails
                self.log.lock().unwrap().push(LogEntry { actor: self.index, ev: Ev::Msg(src, 1_000_000 + v), state_before: Some(**s), state_after: **s, at, cmds: vec![] });
            }
            Wire::Data(v) | Wire::Blob(v, _) => {
                let cmds = if self.script.on_msg.is_empty() { vec![] } else { self.script.on_msg[v as usize % self.script.on_msg.len()].clone() };
                let before = **s;
                *s.to_mut() = before + 1;
                self.log.lock().unwrap().push(LogEntry { actor: self.index, ev: Ev::Msg(src, v), state_before: Some(before), state_after: before + 1, at, cmds: cmds.clone() });
                self.emit(&cmds, o);
            }
        }
    }
    fn on_timeout(&self, _id: Id, s: &mut Cow<u32>, t: &u8, o: &mut Out<Self>) {
        let at = Instant::now();
        let cmds = self.script.on_timeout.get(*t as usize).cloned().unwrap_or_default();
        let before = **s;
        *s.to_mut() = before + 100;
        self.log.lock().unwrap().push(LogEntry { actor: self.index, ev: Ev::Timeout(*t), state_before: Some(before), state_after: before + 100, at, cmds: cmds.clone() });
        self.emit(&cmds, o);
    }
}

/// The message value that the actors' serializer refuses (the harness peers can still send it).
pub const UNSERIALIZABLE: u32 = 13;
/// The message value whose serialized form is the empty byte string (as a unit message has under
/// a compact binary codec): a zero-length datagram is still a datagram.
pub const EMPTY_ON_THE_WIRE: u32 = 17;
fn ser_raw(m: &Wire) -> Result<Vec<u8>, serde_json::Error> {
    if matches!(m, Wire::Data(v) if *v == EMPTY_ON_THE_WIRE) {
        return Ok(vec![]);
    }
    serde_json::to_vec(m)
}
/// the serializer handed to `spawn`
fn ser(m: &Wire) -> Result<Vec<u8>, serde_json::Error> {
    if matches!(m, Wire::Data(v) if *v == UNSERIALIZABLE) {
        return Err(<serde_json::Error as serde::ser::Error>::custom("this message cannot be serialized"));
    }
    ser_raw(m)
}
fn de(b: &[u8]) -> Result<Wire, serde_json::Error> {
    if b.is_empty() {
        return Ok(Wire::Data(EMPTY_ON_THE_WIRE));
    }
    serde_json::from_slice(b)
}

pub struct RunLog {
    pub log: Vec<LogEntry>,
    /// per peer: datagrams received (source address, payload)
    pub peer_rx: Vec<Vec<(SocketAddr, Vec<u8>)>>,
    /// datagrams the harness sent: (peer, actor, payload value)
    pub harness_sent: Vec<(usize, usize, Option<u32>)>,
    pub table: Vec<SocketAddrV4>,
    pub spawn_returned: bool,
    /// datagrams sent after this instant may legitimately be unhandled when the actors are shut down
    pub settled_before: Instant,
    pub harness_sent_at: Vec<Instant>,
}

/// A loopback UDP port that was free a moment ago and that no other scenario of this process
/// has been given (scenarios run in parallel; a shared port would mix their traffic).
fn free_port() -> u16 {
    static GIVEN: Mutex<Option<std::collections::HashSet<u16>>> = Mutex::new(None);
    loop {
        let p = UdpSocket::bind("127.0.0.1:0").unwrap().local_addr().unwrap().port();
        let mut g = GIVEN.lock().unwrap();
        if g.get_or_insert_with(Default::default).insert(p) {
            return p;
        }
    }
}

pub fn run_scenario(sc: &Scenario) -> Result<RunLog, Fail> {
    let n = sc.actors.len();
    let peers: Vec<UdpSocket> = (0..sc.peers.max(1)).map(|_| UdpSocket::bind(("127.0.0.1", free_port())).or_else(|_| UdpSocket::bind("127.0.0.1:0")).unwrap()).collect();
    let mut table: Vec<SocketAddrV4> = (0..n).map(|_| SocketAddrV4::new(Ipv4Addr::LOCALHOST, free_port())).collect();
    for p in &peers {
        p.set_read_timeout(Some(Duration::from_millis(5))).unwrap();
        if let SocketAddr::V4(a) = p.local_addr().unwrap() {
            table.push(a);
        }
    }
    let table = Arc::new(table);
    let log = Arc::new(Mutex::new(vec![]));
    let actors: Vec<(Id, LogActor)> = (0..n).map(|i| (Id::from(table[i]), LogActor { index: i, script: sc.actors[i].clone(), table: Arc::clone(&table), log: Arc::clone(&log) })).collect();
    let handle = std::thread::Builder::new().name("srv-udp".into()).spawn(move || catch_quiet(|| spawn(ser, de, actors))).unwrap();
    // wait until every actor has started (its socket is bound before on_start runs)
    let t0 = Instant::now();
    while log.lock().unwrap().iter().filter(|e| matches!(e.ev, Ev::Start)).count() < n {
        if t0.elapsed() > Duration::from_secs(10) {
            return Err(Fail::new("inconclusive/udp-actors-did-not-start", "actors did not start within 10 s (port clash?)"));
        }
        std::thread::sleep(Duration::from_millis(1));
    }
    let begin = Instant::now();
    let noise_stop = Arc::new(std::sync::atomic::AtomicBool::new(false));
    let noise_thread = if sc.noise {
        let targets: Vec<SocketAddrV4> = table[..n].to_vec();
        let stop = Arc::clone(&noise_stop);
        let until = Duration::from_millis(sc.run_ms);
        Some(std::thread::Builder::new().name("srv-udp-noise".into()).spawn(move || {
            if let Ok(sock) = UdpSocket::bind("127.0.0.1:0") {
                while !stop.load(std::sync::atomic::Ordering::Relaxed) && begin.elapsed() < until {
                    for t in &targets {
                        let _ = sock.send_to(b"\xfe noise", t);
                    }
                    std::thread::sleep(Duration::from_micros(200));
                }
            }
        }).unwrap())
    } else {
        None
    };
    let mut pending: Vec<(u64, usize, usize, Option<u32>)> = sc.datagrams.clone();
    pending.sort_by_key(|d| d.0);
    let mut harness_sent = vec![];
    let mut harness_sent_at = vec![];
    let mut peer_rx: Vec<Vec<(SocketAddr, Vec<u8>)>> = vec![vec![]; peers.len()];
    let mut buf = vec![0u8; 65536];
    let deadline = Duration::from_millis(sc.run_ms);
    let mut next = 0;
    while begin.elapsed() < deadline {
        while next < pending.len() && begin.elapsed() >= Duration::from_millis(pending[next].0) {
            let (_, p, a, v) = pending[next];
            let (p, a) = (p % peers.len(), a % n);
            let payload = match v {
                Some(v) => ser_raw(&wire(v)).unwrap(),
                None => b"\xff\x00 not json".to_vec(),
            };
            let _ = peers[p].send_to(&payload, table[a]);
            harness_sent.push((p, a, v));
            harness_sent_at.push(Instant::now());
            next += 1;
        }
        for (k, p) in peers.iter().enumerate() {
            while let Ok((cnt, src)) = p.recv_from(&mut buf) {
                peer_rx[k].push((src, buf[..cnt].to_vec()));
            }
        }
    }
    noise_stop.store(true, std::sync::atomic::Ordering::Relaxed);
    if let Some(h) = noise_thread {
        let _ = h.join();
    }
    // shut down: poison every actor until spawn returns
    let t1 = Instant::now();
    let mut spawn_returned = false;
    while t1.elapsed() < Duration::from_secs(10) {
        for a in 0..n {
            let _ = peers[0].send_to(&ser_raw(&Wire::Poison).unwrap(), table[a]);
        }
        for (k, p) in peers.iter().enumerate() {
            while let Ok((cnt, src)) = p.recv_from(&mut buf) {
                peer_rx[k].push((src, buf[..cnt].to_vec()));
            }
        }
        if handle.is_finished() {
            spawn_returned = true;
            break;
        }
    }
    if spawn_returned {
        let _ = handle.join();
    }
    let log = log.lock().unwrap().clone();
    let settled_before = begin + deadline.saturating_sub(Duration::from_millis(100));
    Ok(RunLog { log, peer_rx, harness_sent, table: table.to_vec(), spawn_returned, settled_before, harness_sent_at })
}

/// Everything that can be judged from one run. `missing` collects "expected datagram never
/// arrived" observations, which are only reported after repetition (timing policy).
pub fn judge(sc: &Scenario, r: &RunLog, missing: &mut Vec<String>) -> Result<(), Fail> {
    let n = sc.actors.len();
    ensure!(r.spawn_returned, "c17/spawn-did-not-return-after-all-actors-panicked", "spawn() did not return within 10 s although every actor was sent a poison message");
    for a in 0..n {
        let mine: Vec<&LogEntry> = r.log.iter().filter(|e| e.actor == a).collect();
        ensure!(matches!(mine.first().map(|e| &e.ev), Some(Ev::Start)), "c17/first-event-not-start", "actor {}: first event is {:?}", a, mine.first().map(|e| &e.ev));
        ensure!(mine.iter().filter(|e| matches!(e.ev, Ev::Start)).count() == 1, "c17/started-more-than-once", "actor {} started {} times", a, mine.iter().filter(|e| matches!(e.ev, Ev::Start)).count());
        // every handler receives the state left by the previous one
        for w in mine.windows(2) {
            ensure!(w[1].state_before == Some(w[0].state_after), "c17/state-not-carried-over", "actor {}: handler {:?} left state {}, the next handler {:?} received {:?}", a, w[0].ev, w[0].state_after, w[1].ev, w[1].state_before);
        }
        // timers: a firing needs an arming since the last firing/cancel, and may not come early
        let mut armed: HashMap<u8, (Instant, u64)> = HashMap::new();
        for e in &mine {
            if let Ev::Timeout(t) = e.ev {
                match armed.remove(&t) {
                    None => fail!("c17/timer-fired-while-not-armed", "actor {}: timer {} fired although it was not armed (cancelled or already fired since it was last set)", a, t),
                    Some((armed_at, lo)) => {
                        let waited = e.at.duration_since(armed_at);
                        ensure!(waited >= Duration::from_millis(lo), "c17/timer-fired-early", "actor {}: timer {} was armed with lower bound {} ms by a handler entered {:?} before it fired", a, t, lo, waited);
                    }
                }
            }
            for c in &e.cmds {
                match c {
                    SCmd::SetTimer(t, lo, _) => {
                        armed.insert(*t, (e.at, *lo));
                    }
                    SCmd::CancelTimer(t) => {
                        armed.remove(t);
                    }
                    _ => {}
                }
            }
        }
        // every on_msg corresponds one-to-one to a datagram sent to this actor
        let mut sent_to_me: BTreeMap<(SocketAddrV4, u32), i64> = BTreeMap::new();
        // sends that happened too close to the shutdown to demand their delivery
        let mut late: BTreeMap<(SocketAddrV4, u32), i64> = BTreeMap::new();
        for (k, (p, to, v)) in r.harness_sent.iter().enumerate() {
            if *to == a {
                if let Some(v) = v {
                    *sent_to_me.entry((r.table[n + *p], *v)).or_insert(0) += 1;
                    if r.harness_sent_at[k] > r.settled_before {
                        *late.entry((r.table[n + *p], *v)).or_insert(0) += 1;
                    }
                }
            }
        }
        for e in &r.log {
            for c in &e.cmds {
                if let SCmd::Send(to, v) = c {
                    if *v == UNSERIALIZABLE {
                        continue; // not serializable: no datagram is owed
                    }
                    if *to % r.table.len() == a {
                        *sent_to_me.entry((r.table[e.actor], *v)).or_insert(0) += 1;
                        // (a datagram emitted before the destination has bound its socket is
                        // legitimately lost: actors start concurrently)
                        let dest_started = mine.first().map(|s| s.at);
                        if e.at > r.settled_before || dest_started.map_or(true, |s| e.at <= s) {
                            *late.entry((r.table[e.actor], *v)).or_insert(0) += 1;
                        }
                    }
                }
            }
        }
        for e in &mine {
            if let Ev::Msg(src, v) = &e.ev {
                let src_addr = SocketAddrV4::from(*src);
                let k = sent_to_me.entry((src_addr, *v)).or_insert(0);
                *k -= 1;
                ensure!(*k >= 0, "c17/on_msg-without-matching-datagram", "actor {} handled on_msg(src={}, {}) but no (further) datagram with that payload was sent to it from that address; sent to it: harness {:?}", a, src_addr, v, r.harness_sent);
            }
        }
        // (a slow handler lets the socket's receive buffer fill up, and UDP may then drop
        // datagrams legitimately: delivery is only demanded from scenarios without slow handlers)
        let has_stall = sc.actors.iter().any(|a| a.on_start.iter().chain(a.on_msg.iter().flatten()).chain(a.on_timeout.iter().flatten()).any(|c| matches!(c, SCmd::Stall(_))));
        for ((src, v), k) in &sent_to_me {
            if has_stall || sc.noise {
                break;
            }
            if *k > late.get(&(*src, *v)).copied().unwrap_or(0) {
                missing.push(format!("{} datagram(s) Data({}) from {} to actor {} never reached on_msg", k, v, src, a));
            }
        }
    }
    // every Send to a harness peer arrives exactly once, with the actor's address as source
    for (p, rx) in r.peer_rx.iter().enumerate() {
        let mut expect: BTreeMap<(SocketAddrV4, u32), i64> = BTreeMap::new();
        for e in &r.log {
            for c in &e.cmds {
                if let SCmd::Send(to, v) = c {
                    if *v == UNSERIALIZABLE {
                        continue;
                    }
                    if *to % r.table.len() == n + p {
                        *expect.entry((r.table[e.actor], *v)).or_insert(0) += 1;
                    }
                }
            }
        }
        // (the peers keep collecting during the shutdown phase, so nothing sent to them is "late")
        for (src, payload) in rx {
            let SocketAddr::V4(src) = src else { continue };
            match de(payload) {
                Ok(Wire::Blob(v, body)) if body != blob(v) => fail!("c17/payload-damaged", "peer {} received a damaged large payload for value {} ({} bytes instead of {})", p, v, body.len(), blob(v).len()),
                Ok(Wire::Data(v)) | Ok(Wire::Blob(v, _)) => {
                    let k = expect.entry((*src, v)).or_insert(0);
                    *k -= 1;
                    ensure!(*k >= 0, "c17/datagram-without-matching-send", "peer {} received Data({}) from {} but no actor at that address logged such a Send (duplicate, wrong payload or wrong destination)", p, v, src);
                }
                _ => fail!("c17/undecodable-datagram-emitted", "peer {} received bytes that are not a serialized message: {:?}", p, payload),
            }
        }
        for ((src, v), k) in &expect {
            if *k > 0 {
                missing.push(format!("{} datagram(s) Data({}) sent by the actor at {} never reached peer {}", k, v, src, p));
            }
        }
    }
    Ok(())
}

/// Did some handler cancel or re-arm a timer whose upper deadline bound had passed by the time
/// the handler returned (so that the runtime had two expired deadlines at once)?
fn overdue_timer_cancelled_or_rearmed(log: &[LogEntry]) -> bool {
    let mut armed: HashMap<(usize, u8), Instant> = HashMap::new();
    for e in log {
        if let Ev::Timeout(t) = e.ev {
            armed.remove(&(e.actor, t));
        }
        let stall: u64 = e.cmds.iter().map(|c| if let SCmd::Stall(ms) = c { *ms } else { 0 }).sum();
        let leaves_at = e.at + Duration::from_millis(stall);
        for c in &e.cmds {
            match c {
                SCmd::SetTimer(t, _, hi) => {
                    if armed.get(&(e.actor, *t)).map_or(false, |d| *d < leaves_at) {
                        return true;
                    }
                    armed.insert((e.actor, *t), e.at + Duration::from_millis(*hi + stall));
                }
                SCmd::CancelTimer(t) => {
                    if armed.remove(&(e.actor, *t)).map_or(false, |d| d < leaves_at) {
                        return true;
                    }
                }
                _ => {}
            }
        }
    }
    false
}

pub struct Runtime;
impl SubCheck for Runtime {
    type Case = Scenario;
    fn name(&self) -> &'static str {
        "udp_runtime_scenarios"
    }
    fn cases(&self, tier: Tier) -> u32 {
        tier.pick(128, 1200)
    }
    fn workers(&self) -> usize {
        8
    }
    fn max_shrink_iters(&self) -> u32 {
        40
    }
    fn strategy(&self, _tier: Tier) -> BoxedStrategy<Scenario> {
        (1usize..=3, 1usize..=2)
            .prop_flat_map(|(n, peers)| {
                let total = n + peers;
                let cmd = move || {
                    prop_oneof![
                        4 => (0..total, prop_oneof![9 => 0u32..50, 1 => Just(UNSERIALIZABLE), 1 => Just(EMPTY_ON_THE_WIRE)]).prop_map(|(to, v)| SCmd::Send(to, v)),
                        3 => (0u8..2, 5u64..40, 0u64..20).prop_map(|(t, lo, d)| SCmd::SetTimer(t, lo, lo + d)),
                        2 => (0u8..2).prop_map(SCmd::CancelTimer),
                        2 => (10u64..60).prop_map(SCmd::Stall),
                    ]
                };
                let script = (proptest::collection::vec(cmd(), 0..4), proptest::collection::vec(proptest::collection::vec(cmd(), 0..3), 1..4), proptest::collection::vec(proptest::collection::vec(cmd(), 0..3), 2))
                    .prop_map(|(on_start, on_msg, on_timeout)| ActorScript { on_start, on_msg, on_timeout });
                let scripts = proptest::collection::vec(script, n).prop_map(move |mut v: Vec<ActorScript>| {
                    // no message storms: a reaction to a message only sends "forward" (to a
                    // higher-indexed actor or to a harness peer), so message chains are finite
                    for (i, a) in v.iter_mut().enumerate() {
                        for r in a.on_msg.iter_mut() {
                            for c in r.iter_mut() {
                                if let SCmd::Send(to, _) = c {
                                    if *to <= i {
                                        // there is always at least one harness peer after the actors
                                        *to = i + 1 + (*to % (total - i - 1));
                                    }
                                }
                            }
                        }
                    }
                    v
                });
                (scripts, Just(peers), proptest::collection::vec((0u64..150, 0..peers, 0..n, proptest::option::weighted(0.85, 0u32..50)), 1..10), 200u64..320, proptest::bool::weighted(0.5), proptest::bool::weighted(0.35))
            })
            .prop_map(|(mut actors, peers, datagrams, run_ms, slow_handlers, noise)| {
                // slow handlers are a per-scenario feature (delivery is not demanded from such scenarios)
                if !slow_handlers {
                    for a in actors.iter_mut() {
                        a.on_start.retain(|c| !matches!(c, SCmd::Stall(_)));
                        for r in a.on_msg.iter_mut().chain(a.on_timeout.iter_mut()) {
                            r.retain(|c| !matches!(c, SCmd::Stall(_)));
                        }
                    }
                }
                Scenario { actors, peers, datagrams, run_ms, noise }
            })
            .boxed()
    }
    fn check(&self, sc: &Scenario, cov: &mut Cov) -> Result<(), Fail> {
        // message storms are not the subject: bound the traffic a script can create
        // (every message triggers at most 2 sends; cycles between actors are cut by the run time)
        let mut missing = vec![];
        let r = run_scenario(sc)?;
        cov.eval();
        judge(sc, &r, &mut missing)?;
        if !missing.is_empty() {
            // an expected datagram that never arrived is only reported if two fresh repetitions
            // with a longer observation window agree (UDP gives no delivery guarantee)
            let mut longer = sc.clone();
            longer.run_ms += 300;
            let mut confirmed = true;
            for _ in 0..2 {
                let mut m2 = vec![];
                let r2 = run_scenario(&longer)?;
                judge(&longer, &r2, &mut m2)?;
                if m2.is_empty() {
                    confirmed = false;
                    break;
                }
            }
            if confirmed {
                fail!("c17/datagram-lost", "in three runs: {:?}", missing);
            }
            cov.label("missing_datagram_not_confirmed");
        }
        let timeouts = r.log.iter().filter(|e| matches!(e.ev, Ev::Timeout(_))).count();
        let actor_to_actor = r.log.iter().any(|e| matches!(e.ev, Ev::Msg(src, _) if r.table[..sc.actors.len()].contains(&SocketAddrV4::from(src))));
        let cancels = r.log.iter().any(|e| e.cmds.iter().any(|c| matches!(c, SCmd::CancelTimer(_))));
        let rearm = r.log.iter().filter(|e| e.cmds.iter().any(|c| matches!(c, SCmd::SetTimer(..)))).count() >= 2;
        cov.label_if(timeouts > 0, "timer_fired");
        cov.label_if(actor_to_actor, "actor_to_actor_message");
        cov.label_if(cancels, "cancel_timer");
        cov.label_if(sc.noise && timeouts > 0, "timer_fired_under_datagram_noise");
        cov.label_if(r.log.iter().any(|e| e.cmds.iter().any(|c| matches!(c, SCmd::Send(_, v) if *v == EMPTY_ON_THE_WIRE))), "send_of_a_message_that_is_empty_on_the_wire");
        cov.label_if(r.log.iter().any(|e| e.cmds.iter().position(|c| matches!(c, SCmd::Send(_, v) if *v == UNSERIALIZABLE)).map_or(false, |i| i + 1 < e.cmds.len())), "unserializable_send_followed_by_other_commands");
        cov.label_if(r.log.iter().any(|e| e.cmds.iter().any(|c| matches!(c, SCmd::Stall(_)))), "slow_handler");
        // a handler that cancels or re-arms a timer whose deadline had already passed when it ran
        cov.label_if(overdue_timer_cancelled_or_rearmed(&r.log), "cancel_or_rearm_of_an_overdue_timer");
        cov.label_if(rearm, "re_arm");
        cov.label_if(sc.datagrams.iter().any(|d| d.3.is_none()), "garbage_datagram");
        cov.label_if(r.peer_rx.iter().any(|p| !p.is_empty()), "send_to_harness_peer");
        cov.label_if(r.log.iter().any(|e| matches!(e.ev, Ev::Msg(_, v) if v >= 43 && v < 1000)), "large_datagram_handled(>8KiB)");
        if (cancels || rearm) && actor_to_actor {
            cov.nontrivial(sc);
            if cov.wants_sample() {
                cov.sample(json!({"scenario": sc, "handler_calls": r.log.len(), "timer_firings": timeouts, "datagrams_at_peers": r.peer_rx.iter().map(|p| p.len()).collect::<Vec<_>>()}));
            }
        }
        Ok(())
    }
    fn mandatory(&self) -> Vec<&'static str> {
        vec!["timer_fired", "actor_to_actor_message", "cancel_timer", "re_arm", "garbage_datagram", "send_to_harness_peer", "large_datagram_handled(>8KiB)", "slow_handler", "unserializable_send_followed_by_other_commands", "send_of_a_message_that_is_empty_on_the_wire", "timer_fired_under_datagram_noise"]
    }
}

pub fn spec() -> PropSpec {
    PropSpec {
        id: "C17",
        level: "exploration",
        rule: "Pure part: generated 48-bit ids and IPv4 socket addresses: both round trips, injectivity on neighbouring addresses, Display. Runtime part: generated scenarios of 1-3 logging actors on fresh loopback UDP ports run by the real spawn(): scripts of sends, timers with ranges of 5-60 ms, cancels and re-arms in on_start/on_msg/on_timeout; 1-2 harness-owned UDP peers send generated datagrams (serialized messages and garbage) at generated offsets and collect what they receive; a poison message makes every actor panic so that spawn returns. Oracle over the logs: Start first and once; state carried from handler to handler; each on_msg matched one-to-one with a datagram sent to that address, with src = Id of the sender's address; garbage causes no handler call; each Send to a peer arrives exactly once from the actor's address; a timer fires only while armed and not earlier than the lower bound measured from the entry of the arming handler; missing datagrams are reported only if two fresh repetitions agree. Non-trivial = a scenario with a cancel or re-arm and an actor-to-actor message; distinct by hash of the scenario.",
        assumptions: vec![
            "OS timing is sampled, not enumerated; 'a timer eventually fires' is not claimed",
            "the random-choice interrupt (0-10 s delay) of the runtime is not exercised",
            "loopback UDP does not reorder datagrams between one socket pair",
        ],
        subs: vec![Box::new(IdAddr), Box::new(Runtime)],
    }
}
