//! C13 — single-threaded BFS evaluates by depth and returns shortest witnesses.

use crate::engine::*;
use crate::graph::*;
use crate::props::c02::GCase;
use crate::runner::*;
use crate::{ensure, fail};
use proptest::prelude::*;
use serde_json::json;
use std::time::Duration;

pub struct BfsOrder;
impl SubCheck for BfsOrder {
    fn fuzzable(&self) -> bool {
        true
    }
    type Case = GCase;
    fn name(&self) -> &'static str {
        "bfs_order_and_shortest_witness"
    }
    fn cases(&self, tier: Tier) -> u32 {
        tier.pick(20000, 300000)
    }
    fn strategy(&self, tier: Tier) -> BoxedStrategy<GCase> {
        let mut p = GraphParams::small();
        // (eventually-properties take part as bystanders: their bits travel with the jobs, and
        // nothing about them may disturb the order or the parents of always/sometimes witnesses)
        p.exps = vec![Exp::Always, Exp::Sometimes, Exp::Always, Exp::Sometimes, Exp::Eventually];
        p.max_props = 4;
        p.max_n = tier.pick(30, 80);
        p.max_deg = 4;
        p.shapes = vec![(4, Shape::Uniform), (3, Shape::Dag(4)), (2, Shape::Cyclic), (1, Shape::Comb), (1, Shape::Forest)];
        // (a depth limit does not change the claim: whatever is evaluated is evaluated by depth, so a
        // reported witness is still the nearest one)
        (graph_strategy(p), block_strategy(), proptest::option::weighted(0.3, 2usize..8))
            .prop_map(|(g, block, depth)| {
                let mut cfg = RunCfg::plain(Strat::Bfs, 1).with_block(block);
                cfg.target_max_depth = depth;
                GCase { g, cfg }
            })
            .boxed()
    }
    fn check(&self, case: &GCase, cov: &mut Cov) -> Result<(), Fail> {
        let g = &case.g;
        let gm = GM::new(g);
        let gm_ref = GM::new(g);
        let r = g.reach();
        let out = run_checker(gm, &case.cfg, &PROP_NAMES, None, true, Duration::from_secs(120));
        if out.gave_up {
            fail!("inconclusive/workers-did-not-finish", "{:?}", case.cfg);
        }
        cov.eval();
        // evaluation order
        let mut prev = 0usize;
        for (i, v) in out.visits.iter().enumerate() {
            let last = v.path.last().unwrap().0 .0;
            let len = v.path.len() - 1;
            ensure!(len >= prev, "c13/evaluation-order-not-by-depth", "visit #{} (state {}) has path length {} after a visit with path length {}", i, last, len, prev);
            prev = len;
            // a "path" is only a shortest path if it is a path: every step a transition of the model
            if let Err(f) = validate_steps(&gm_ref, &v.path) {
                fail!(format!("c13/visitor-{}", f.sig), "visit #{} (state {}): {}", i, last, f.detail);
            }
            match r.dist[last as usize] {
                Some(d) => ensure!(d as usize == len, "c13/visitor-path-not-shortest", "state {} shown with a path of {} transitions, its distance is {}", last, len, d),
                None => fail!("c13/unreachable-state-evaluated", "state {} is not reachable", last),
            }
        }
        let disc = match &out.discoveries {
            Ok(d) => d,
            Err(e) => fail!("c13/discoveries-panicked", "{}", e),
        };
        let mut nontrivial = false;
        cov.label_if(g.props.iter().any(|p| p.exp == Exp::Eventually), "with_eventually_bystander");
        cov.label_if(case.cfg.target_max_depth.is_some() && !disc.is_empty(), "discovery_under_a_depth_limit");
        for (k, p) in g.props.iter().enumerate() {
            if p.exp == Exp::Eventually {
                continue;
            }
            if let Some(path) = disc.get(PROP_NAMES[k]) {
                let want_on = p.exp == Exp::Sometimes;
                let best = r.set.iter().filter(|s| p.on.contains(s) == want_on).filter_map(|s| r.dist[*s as usize]).min();
                let got = path.clone().into_actions().len();
                match validate_path(&gm_ref, path) {
                    Err(f) => fail!(format!("c13/witness-{}", f.sig), "path reported for {}: {}", PROP_NAMES[k], f.detail),
                    Ok(states) => {
                        let end = states.last().unwrap().0;
                        ensure!(p.on.contains(&end) == want_on, "c13/witness-does-not-end-in-a-witnessing-state", "path reported for {} ends in state {}", PROP_NAMES[k], end);
                    }
                }
                match best {
                    None => fail!("c13/discovery-without-witness", "property {} has a discovery but no witness is reachable", PROP_NAMES[k]),
                    Some(b) => {
                        ensure!(got == b as usize, "c13/witness-not-shortest", "property {} reported with {} transitions, the nearest witness is {} transitions away", PROP_NAMES[k], got, b);
                        if b >= 2 {
                            // is some witness reachable at a larger distance too? (then a longer path exists)
                            let farther = r.set.iter().filter(|s| p.on.contains(s) == want_on).filter_map(|s| r.dist[*s as usize]).any(|d| d > b);
                            if farther || g.features().contains(&"join") {
                                nontrivial = true;
                            }
                        }
                    }
                }
                cov.label("discovery_checked");
            }
        }
        for f in g.features() {
            cov.label(f);
        }
        if nontrivial {
            cov.label("witness_depth>=2_with_alternatives");
            cov.nontrivial(g);
            if cov.wants_sample() {
                cov.sample(json!({"graph": g, "evaluation_order": out.visits.iter().map(|v| v.path.last().unwrap().0.0).collect::<Vec<_>>(), "discoveries": disc.iter().map(|(k, p)| (k.to_string(), p.clone().into_actions().len())).collect::<std::collections::BTreeMap<_, _>>()}));
            }
        }
        Ok(())
    }
    fn mandatory(&self) -> Vec<&'static str> {
        vec!["discovery_checked", "witness_depth>=2_with_alternatives", "join", "multi_init", "oob_successor", "with_eventually_bystander", "discovery_under_a_depth_limit"]
    }
}

pub fn spec() -> PropSpec {
    PropSpec {
        id: "C13",
        level: "exploration",
        rule: "Cases = generated graph models (joins, cycles, several initial states, boundaries, ignored actions) with always/sometimes properties, checked by spawn_bfs with one thread and a recording visitor. Oracle: independent BFS distances; every visitor path length must be non-decreasing and equal the state's distance; every reported always/sometimes path length must equal the minimum distance to any witnessing state. Non-trivial = the nearest witness is >= 2 transitions away and a longer route or farther witness exists; distinct by graph hash.",
        assumptions: vec!["no fingerprint collision at these sizes"],
        subs: vec![Box::new(BfsOrder)],
    }
}
