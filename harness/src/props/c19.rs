//! C19 — Explorer, on-demand checking and the Path API agree with the model.

use crate::engine::*;
use crate::graph::*;
use crate::props::c02::expect_discovery;
use crate::props::c03::validate_discovery;
use crate::runner::Visit;
use crate::{ensure, fail};
use proptest::prelude::*;
use serde::{Deserialize, Serialize};
use serde_json::{json, Value};
use stateright::verif_hooks::{fingerprint_of, path_final_state, path_from_fingerprints};
use stateright::{Checker, Model, Path};
use std::collections::{BTreeMap, BTreeSet, HashSet};
use std::io::{Read, Write};
use std::net::{TcpListener, TcpStream};
use std::sync::{Arc, Mutex};
use std::time::{Duration, Instant};

fn fp(s: u32) -> u64 {
    fingerprint_of(&S(s))
}

// ---------------------------------------------------------------------------------------------
// Path API
// ---------------------------------------------------------------------------------------------

#[derive(Clone, Debug, Serialize, Deserialize, PartialEq, Eq, Hash)]
pub struct PathCase {
    pub g: GraphDesc,
    pub init: u8,
    pub walk: Vec<u16>,
    /// 0 valid, 1 replace one fingerprint, 2 drop the head, 3 extra tail, 4 disabled action in the action list
    pub corrupt: u8,
    pub at: u8,
    pub junk: u64,
}

/// Follows `walk` (monotone action choices) from an initial state; returns states and actions of
/// a real execution (ignored actions are skipped).
pub fn real_walk(g: &GraphDesc, init: u8, walk: &[u16]) -> (Vec<u32>, Vec<u16>) {
    let mut s = g.inits[idx8(init, g.inits.len())];
    let mut states = vec![s];
    let mut actions = vec![];
    for w in walk {
        let e = &g.edges[s as usize];
        if e.is_empty() {
            break;
        }
        let a = idx(*w, e.len());
        if let Some(t) = e[a] {
            actions.push(a as u16);
            states.push(t);
            s = t;
        }
    }
    (states, actions)
}

pub struct PathApi;
impl SubCheck for PathApi {
    fn fuzzable(&self) -> bool {
        true
    }
    type Case = PathCase;
    fn name(&self) -> &'static str {
        "path_api"
    }
    fn cases(&self, tier: Tier) -> u32 {
        tier.pick(40000, 600000)
    }
    fn strategy(&self, _tier: Tier) -> BoxedStrategy<PathCase> {
        let mut p = GraphParams::small();
        p.oob_rate = 0;
        p.max_props = 1;
        p.min_props = 0;
        p.max_n = 14;
        p.max_deg = 4;
        (graph_strategy(p), any::<u8>(), proptest::collection::vec(any::<u16>(), 0..8), 0u8..6, any::<u8>(), any::<u64>())
            .prop_map(|(g, init, walk, corrupt, at, junk)| PathCase { g, init, walk, corrupt, at, junk })
            .boxed()
    }
    fn check(&self, c: &PathCase, cov: &mut Cov) -> Result<(), Fail> {
        let g = &c.g;
        let gm = GM::new(g);
        let (states, actions) = real_walk(g, c.init, &c.walk);
        cov.eval();
        // from_actions on the real walk
        let Some(path) = Path::from_actions(&gm, S(states[0]), actions.iter()) else { fail!("c19/path/from_actions-rejects-real-execution", "from_actions returned None for the real walk {:?} via {:?}", states, actions) };
        let v = path.clone().into_vec();
        let got_states: Vec<u32> = v.iter().map(|(s, _)| s.0).collect();
        let got_actions: Vec<u16> = v.iter().filter_map(|(_, a)| *a).collect();
        ensure!(got_states == states && got_actions == actions, "c19/path/from_actions-denotes-another-execution", "walk {:?} via {:?}: from_actions gives states {:?} actions {:?}", states, actions, got_states, got_actions);
        ensure!(v.last().unwrap().1.is_none() && v[..v.len() - 1].iter().all(|(_, a)| a.is_some()), "c19/path/shape", "into_vec shape wrong: {:?}", v);
        ensure!(path.clone().into_states().iter().map(|s| s.0).collect::<Vec<_>>() == states, "c19/path/into_states", "into_states differs");
        ensure!(path.clone().into_actions() == actions, "c19/path/into_actions", "into_actions differs");
        ensure!(path.last_state().0 == *states.last().unwrap(), "c19/path/last_state", "last_state differs");
        // encode = fingerprints joined by '/'
        let fps: Vec<u64> = states.iter().map(|s| fp(*s)).collect();
        let want_enc = fps.iter().map(|f| f.to_string()).collect::<Vec<_>>().join("/");
        ensure!(path.encode() == want_enc, "c19/path/encode", "encode() = {:?}, fingerprints of the states are {:?}", path.encode(), want_enc);
        // rebuilt from fingerprints: same states, valid steps
        let rebuilt = catch_quiet(|| path_from_fingerprints(&gm, &fps)).map_err(|e| Fail::new("c19/path/from_fingerprints-panics-on-real-execution", e))?;
        ensure!(rebuilt.clone().into_states().iter().map(|s| s.0).collect::<Vec<_>>() == states, "c19/path/from_fingerprints-other-states", "from_fingerprints gives {:?}", rebuilt);
        if let Err(f) = validate_steps(&gm, &rebuilt.clone().into_vec()) {
            fail!(format!("c19/path/from_fingerprints-{}", f.sig), "{}", f.detail);
        }
        ensure!(path_final_state(&gm, &fps).map(|s| s.0) == Some(*states.last().unwrap()), "c19/path/final_state", "final_state of a real execution differs");
        // corrupted inputs
        match c.corrupt {
            1 | 2 | 3 | 5 if !fps.is_empty() => {
                let mut bad = fps.clone();
                let what;
                match c.corrupt {
                    5 => {
                        // a fingerprint that matches nothing *in front of* a real execution
                        bad.insert(0, c.junk | 1);
                        what = "junk_prepended";
                    }
                    1 => {
                        let i = idx8(c.at, bad.len());
                        bad[i] = c.junk | 1;
                        what = "replaced";
                    }
                    2 => {
                        bad.remove(0);
                        what = "head_dropped";
                    }
                    _ => {
                        bad.push(c.junk | 1);
                        what = "extra_tail";
                    }
                }
                // does it still denote an execution? decide by walking the model ourselves
                let denotes = denotes_execution(g, &bad);
                let got = path_final_state(&gm, &bad).map(|s| s.0);
                ensure!(got.is_some() == denotes.is_some(), "c19/path/final_state-on-corrupted-sequence", "fingerprints {:?} ({}) {} an execution but final_state = {:?}", bad, what, if denotes.is_some() { "denote" } else { "do not denote" }, got);
                if let (Some(a), Some(b)) = (got, denotes) {
                    ensure!(a == b, "c19/path/final_state-wrong-state", "final_state {:?} vs {:?}", a, b);
                }
                cov.label(what);
                cov.label_if(denotes.is_none(), "corrupted_sequence_rejected");
            }
            4 => {
                // an action list with a disabled (out of range) or ignored action is not an execution
                let mut bad = actions.clone();
                let i = idx8(c.at, bad.len() + 1);
                // find the state at position i and an action that is disabled or ignored there
                let s = states[i.min(states.len() - 1)];
                let e = &g.edges[s as usize];
                let ignored = e.iter().position(|t| t.is_none());
                let a = ignored.unwrap_or(e.len()) as u16;
                bad.truncate(i.min(actions.len()));
                bad.push(a);
                let r = Path::from_actions(&gm, S(states[0]), bad.iter());
                ensure!(r.is_none(), "c19/path/from_actions-accepts-disabled-or-ignored-action", "from_actions accepted {:?} from {} although action {} is {} at state {}", bad, states[0], a, if ignored.is_some() { "ignored" } else { "not enabled" }, s);
                // a non-initial start state is rejected as well
                if let Some(ni) = (0..g.n).find(|s| !g.inits.contains(s)) {
                    ensure!(Path::from_actions(&gm, S(ni), Vec::<u16>::new().iter()).is_none(), "c19/path/from_actions-accepts-non-initial-state", "state {} is not initial", ni);
                }
                cov.label("disabled_action_rejected");
            }
            _ => {}
        }
        if states.len() >= 3 {
            cov.label("walk_len>=2");
            cov.nontrivial(c);
            if cov.wants_sample() {
                cov.sample(json!({"graph": g, "walk_states": states, "walk_actions": actions, "encoded": want_enc, "corruption": c.corrupt}));
            }
        }
        Ok(())
    }
    fn mandatory(&self) -> Vec<&'static str> {
        vec!["walk_len>=2", "replaced", "head_dropped", "extra_tail", "junk_prepended", "corrupted_sequence_rejected", "disabled_action_rejected"]
    }
}

/// Independent decision: does this fingerprint sequence denote an execution (first = some initial
/// state, each next = some successor)? Returns the final state.
pub fn denotes_execution(g: &GraphDesc, fps: &[u64]) -> Option<u32> {
    let first = *fps.first()?;
    let mut cur = *g.inits.iter().find(|i| fp(**i) == first)?;
    for f in &fps[1..] {
        cur = g.edges[cur as usize].iter().flatten().copied().find(|t| fp(*t) == *f)?;
    }
    Some(cur)
}

// ---------------------------------------------------------------------------------------------
// On-demand checking: targeted requests, then run to completion
// ---------------------------------------------------------------------------------------------

#[derive(Clone, Debug, Serialize, Deserialize, PartialEq, Eq, Hash)]
pub struct OnDemandCase {
    pub g: GraphDesc,
    /// issue all requests (and run_to_completion) back to back while the worker is kept busy
    #[serde(default)]
    pub burst: bool,
    /// each request picks a pending state (by index into the pending list) or, if `true`, a junk fingerprint
    pub requests: Vec<(u8, bool)>,
}

pub struct OnDemand;
impl SubCheck for OnDemand {
    type Case = OnDemandCase;
    fn name(&self) -> &'static str {
        "on_demand_requests"
    }
    fn max_shrink_iters(&self) -> u32 {
        // a failing case may cost a 10 s wait per attempt ("requested state not evaluated")
        12
    }
    fn cases(&self, tier: Tier) -> u32 {
        tier.pick(2000, 30000)
    }
    fn strategy(&self, _tier: Tier) -> BoxedStrategy<OnDemandCase> {
        let mut p = GraphParams::small();
        p.max_props = 3;
        p.min_props = 1;
        p.exps = vec![Exp::Always, Exp::Sometimes, Exp::Eventually];
        p.force_true_always = true;
        p.max_n = 16;
        // forests (every state reachable by one path) are where eventually-verdicts are exact, so
        // that "finishes like BFS" can be demanded of them too
        p.shapes.push((4, Shape::Forest));
        (graph_strategy(p), proptest::collection::vec((any::<u8>(), proptest::bool::weighted(0.3)), 0..8), proptest::bool::weighted(0.4))
            .prop_map(|(mut g, requests, burst)| {
                if burst {
                    g.slow_us = 300;
                }
                OnDemandCase { g, requests, burst }
            })
            .boxed()
    }
    fn check(&self, c: &OnDemandCase, cov: &mut Cov) -> Result<(), Fail> {
        let g = &c.g;
        let gm = GM::new(g);
        let r = g.reach();
        let visits: Arc<Mutex<Vec<Visit<GM>>>> = Arc::new(Mutex::new(vec![]));
        let v2 = Arc::clone(&visits);
        let checker = gm
            .clone()
            .checker()
            .threads(1)
            .visitor(move |p: Path<S, u16>| {
                v2.lock().unwrap().push(Visit { path: p.into_vec(), thread: String::new() });
            })
            .spawn_on_demand();
        cov.eval();
        // reference bookkeeping
        let mut pending: Vec<u32> = vec![];
        let mut generated: BTreeSet<u32> = BTreeSet::new();
        for i in &g.inits {
            if g.inb(*i) && generated.insert(*i) {
                pending.push(*i);
            }
        }
        let mut want_state_count = pending.len();
        let mut expected_visits: Vec<u32> = vec![];
        let wait_for = |n: usize| -> bool {
            let t0 = Instant::now();
            while visits.lock().unwrap().len() < n {
                if t0.elapsed() > Duration::from_secs(10) {
                    return false;
                }
                std::thread::sleep(Duration::from_micros(100));
            }
            true
        };
        let mut effective = 0;
        let mut requested_early: BTreeSet<u32> = BTreeSet::new();
        for (raw, junk) in &c.requests {
            if pending.is_empty() {
                break;
            }
            if *junk {
                // a fingerprint that denotes no pending state: nothing may be evaluated. Either
                // one that denotes no state at all, or (odd raw) a reachable state that has not been
                // generated yet - a deep link ahead of the exploration; asking for the same state
                // again later, when it is pending, must work
                let ahead: Vec<u32> = r.set.iter().copied().filter(|s| !generated.contains(s)).collect();
                if *raw % 2 == 1 && !ahead.is_empty() {
                    let s = ahead[idx8(*raw, ahead.len())];
                    checker.check_fingerprint(std::num::NonZeroU64::new(fp(s)).unwrap());
                    requested_early.insert(s);
                    cov.label("request_ahead_of_the_exploration");
                } else {
                    checker.check_fingerprint(std::num::NonZeroU64::new(0xdead_0000_0000_0001 + *raw as u64).unwrap());
                }
                cov.label("request_for_unknown_fingerprint");
                continue;
            }
            // prefer a pending state that was asked for too early before
            let k = pending.iter().position(|s| requested_early.contains(s)).unwrap_or_else(|| idx8(*raw, pending.len()));
            let s = pending.remove(k);
            if requested_early.remove(&s) {
                cov.label("state_requested_again_once_pending");
            }
            checker.check_fingerprint(std::num::NonZeroU64::new(fp(s)).unwrap());
            expected_visits.push(s);
            effective += 1;
            for t in g.succ_inb(s) {
                want_state_count += 1;
                if generated.insert(t) {
                    pending.push(t);
                }
            }
            if c.burst {
                continue;
            }
            ensure!(wait_for(expected_visits.len()), "c19/on-demand/requested-state-not-evaluated", "check_fingerprint of pending state {} was not followed by its evaluation within 10 s (requests so far {:?})", s, expected_visits);
        }
        if c.burst {
            cov.label("burst_of_requests");
        } else {
            let seen: Vec<u32> = visits.lock().unwrap().iter().map(|v| v.path.last().unwrap().0 .0).collect();
            ensure!(seen == expected_visits, "c19/on-demand/evaluated-other-than-requested", "requested {:?} in this order, the visitor saw {:?}", expected_visits, seen);
            // (the visitor is called before the successors are generated: give the worker time to
            // finish the state; the counters only ever grow)
            let t0 = Instant::now();
            while checker.state_count() < want_state_count && t0.elapsed() < Duration::from_secs(5) {
                std::thread::sleep(Duration::from_micros(100));
            }
            ensure!(checker.state_count() == want_state_count, "c19/on-demand/state_count-wrong", "after evaluating {:?}: state_count()={} but {} states were generated (initial states + in-boundary successors)", expected_visits, checker.state_count(), want_state_count);
            ensure!(checker.unique_state_count() == generated.len(), "c19/on-demand/unique_state_count-wrong", "unique_state_count()={} but {} distinct states were generated", checker.unique_state_count(), generated.len());
        }
        // run to completion: finishes like BFS
        checker.run_to_completion();
        let checker = {
            let (tx, rx) = std::sync::mpsc::channel();
            std::thread::spawn(move || {
                let c = checker.join();
                let _ = tx.send(c);
            });
            match rx.recv_timeout(Duration::from_secs(20)) {
                Ok(c) => c,
                Err(_) => fail!("c19/on-demand/join-did-not-return", "join() did not return within 20 s after run_to_completion"),
            }
        };
        let all: Vec<u32> = visits.lock().unwrap().iter().map(|v| v.path.last().unwrap().0 .0).collect();
        if c.burst {
            ensure!(all.len() >= expected_visits.len() && all[..expected_visits.len()] == expected_visits[..], "c19/on-demand/evaluated-other-than-requested", "burst: requested {:?} in this order before run_to_completion, the visitor saw {:?}", expected_visits, all);
        }
        let set: BTreeSet<u32> = all.iter().copied().collect();
        ensure!(set == r.set && all.len() == set.len(), "c19/on-demand/completion-differs-from-bfs", "after run_to_completion {} states were evaluated ({} distinct), BFS evaluates {}", all.len(), set.len(), r.set.len());
        ensure!(checker.unique_state_count() == r.set.len() && checker.is_done(), "c19/on-demand/completion-counts", "unique={} reachable={} done={}", checker.unique_state_count(), r.set.len(), checker.is_done());
        let disc = catch_quiet(|| checker.discoveries()).map_err(|e| Fail::new("c19/on-demand/discoveries-panicked", e))?;
        for (k, p) in g.props.iter().enumerate() {
            if let Some(want) = expect_discovery(g, &r.set, p) {
                ensure!(disc.contains_key(PROP_NAMES[k]) == want, "c19/on-demand/verdict-differs-from-bfs", "property {}: discovery present = {}, BFS verdict {}", PROP_NAMES[k], !want, want);
            } else if p.exp == Exp::Eventually {
                // never a false alarm; on forests exactly BFS's verdict (C11's two halves)
                let violated = g.eventually_violated(&p.on);
                let got = disc.contains_key(PROP_NAMES[k]);
                ensure!(!got || violated, "c19/on-demand/eventually-false-alarm", "property {} has a counterexample after run_to_completion but every maximal in-boundary path satisfies it", PROP_NAMES[k]);
                if g.is_forest() {
                    ensure!(got == violated, "c19/on-demand/verdict-differs-from-bfs", "eventually-property {} on a forest: discovery present = {}, BFS (exact on forests) reports {}", PROP_NAMES[k], got, violated);
                    cov.label_if(violated, "forest_eventually_counterexample");
                    cov.label_if(violated && g.edges.iter().enumerate().any(|(s, es)| r.set.contains(&(s as u32)) && !es.is_empty() && g.succ_inb(s as u32).is_empty() && !p.on.contains(&(s as u32))), "forest_counterexample_may_end_at_the_boundary");
                }
            }
        }
        cov.label_if(effective >= 2, "two_targeted_requests");
        if effective >= 2 {
            cov.nontrivial(c);
            if cov.wants_sample() {
                cov.sample(json!({"graph": g, "requested_in_order": expected_visits, "then_run_to_completion_evaluated": all.len()}));
            }
        }
        Ok(())
    }
    fn mandatory(&self) -> Vec<&'static str> {
        vec!["two_targeted_requests", "request_for_unknown_fingerprint", "burst_of_requests", "forest_eventually_counterexample", "forest_counterexample_may_end_at_the_boundary", "state_requested_again_once_pending"]
    }
}

// ---------------------------------------------------------------------------------------------
// Explorer over real HTTP
// ---------------------------------------------------------------------------------------------

fn http(port: u16, method: &str, url: &str) -> Result<(u16, String), String> {
    let mut last = String::new();
    for _ in 0..50 {
        match TcpStream::connect(("127.0.0.1", port)) {
            Ok(mut s) => {
                let _ = s.set_read_timeout(Some(Duration::from_secs(20)));
                let req = format!("{} {} HTTP/1.0\r\nHost: localhost\r\nContent-Length: 0\r\n\r\n", method, url);
                s.write_all(req.as_bytes()).map_err(|e| e.to_string())?;
                let mut buf = vec![];
                s.read_to_end(&mut buf).map_err(|e| e.to_string())?;
                let text = String::from_utf8_lossy(&buf).to_string();
                let code: u16 = text.split_whitespace().nth(1).and_then(|c| c.parse().ok()).ok_or_else(|| format!("bad response: {:?}", &text[..text.len().min(80)]))?;
                let body = text.split_once("\r\n\r\n").map(|x| x.1.to_string()).unwrap_or_default();
                return Ok((code, body));
            }
            Err(e) => {
                last = e.to_string();
                std::thread::sleep(Duration::from_millis(20));
            }
        }
    }
    Err(format!("cannot connect: {}", last))
}

#[derive(Clone, Debug, Serialize, Deserialize, PartialEq, Eq, Hash)]
pub struct ExplorerCase {
    pub g: GraphDesc,
    /// walks to request: (initial state choice, action choices, corruption 0..4, position, junk)
    pub requests: Vec<(u8, Vec<u16>, u8, u8, u64)>,
}

pub struct Explorer;
impl SubCheck for Explorer {
    type Case = ExplorerCase;
    fn name(&self) -> &'static str {
        "explorer_http"
    }
    fn cases(&self, tier: Tier) -> u32 {
        tier.pick(40, 400)
    }
    fn strategy(&self, _tier: Tier) -> BoxedStrategy<ExplorerCase> {
        let mut p = GraphParams::small();
        p.max_props = 3;
        p.min_props = 1;
        p.exps = vec![Exp::Always, Exp::Sometimes];
        p.force_true_always = true;
        p.max_n = 12;
        p.oob_rate = 0;
        let req = (any::<u8>(), proptest::collection::vec(any::<u16>(), 0..5), 0u8..5, any::<u8>(), any::<u64>());
        (graph_strategy(p), proptest::collection::vec(req, 30..50)).prop_map(|(g, requests)| ExplorerCase { g, requests }).boxed()
    }
    fn workers(&self) -> usize {
        2
    }
    fn max_shrink_iters(&self) -> u32 {
        30
    }
    fn check(&self, c: &ExplorerCase, cov: &mut Cov) -> Result<(), Fail> {
        let g = &c.g;
        let gm = GM::new(g);
        let r = g.reach();
        // a free loopback port (serve() never returns, so the port cannot be learnt from it)
        let port = {
            let l = TcpListener::bind("127.0.0.1:0").map_err(|e| Fail::new("inconclusive/no-port", e.to_string()))?;
            l.local_addr().unwrap().port()
        };
        let gm2 = gm.clone();
        std::thread::Builder::new()
            .name("srv-explorer".into())
            .spawn(move || {
                let _ = gm2.checker().threads(1).serve(("127.0.0.1", port));
            })
            .unwrap();
        let get = |url: &str| http(port, "GET", url).map_err(|e| Fail::new("inconclusive/http", format!("{} {}", url, e)));
        // initial states
        let (code, body) = get("/.states")?;
        ensure!(code == 200, "c19/explorer/init-states-status", "GET /.states -> {}", code);
        let init: Value = serde_json::from_str(&body).map_err(|e| Fail::new("c19/explorer/init-states-json", format!("{}: {}", e, body)))?;
        let init = init.as_array().cloned().unwrap_or_default();
        ensure!(init.len() == g.inits.len(), "c19/explorer/init-states-count", "GET /.states lists {} states, the model has {} initial states", init.len(), g.inits.len());
        for (k, v) in init.iter().enumerate() {
            let s = g.inits[k];
            ensure!(v["fingerprint"].as_str() == Some(&fp(s).to_string()) && v["state"].as_str() == Some(&format!("{:#?}", S(s))) && v.get("action").is_none(), "c19/explorer/init-state-entry", "entry #{} of GET /.states is {} for initial state {}", k, v, s);
        }
        cov.eval();
        let mut prev_counts = (0u64, 0u64);
        let mut checked = 0;
        for (n, (init_raw, walk, corrupt, at, junk)) in c.requests.iter().enumerate() {
            let (states, _) = real_walk(g, *init_raw, walk);
            let mut fps: Vec<u64> = states.iter().map(|s| fp(*s)).collect();
            let mut text: Option<String> = None;
            match corrupt {
                1 => {
                    let i = idx8(*at, fps.len());
                    fps[i] = *junk | 1;
                }
                2 => {
                    fps.push(*junk | 1);
                }
                4 => {
                    fps.insert(0, *junk | 1);
                    cov.label("junk_prepended_request");
                }
                3 => {
                    text = Some(match at % 3 {
                        0 => format!("{}/abc", fps[0]),
                        1 => "0".to_string(),
                        _ => format!("{}//{}", fps[0], fps[0]),
                    });
                }
                _ => {}
            }
            let url = format!("/.states/{}", text.clone().unwrap_or_else(|| fps.iter().map(|f| f.to_string()).collect::<Vec<_>>().join("/")));
            let (code, body) = get(&url)?;
            cov.eval();
            let denotes = if text.is_some() { None } else { denotes_execution(g, &fps) };
            match denotes {
                None => {
                    ensure!(code == 404, "c19/explorer/invalid-sequence-not-404", "GET {} denotes no execution but the answer is {} {}", url, code, &body[..body.len().min(200)]);
                    cov.label("invalid_sequence_404");
                }
                Some(last) => {
                    ensure!(code == 200, "c19/explorer/valid-sequence-rejected", "GET {} denotes an execution ending in {} but the answer is {}", url, last, code);
                    let v: Value = serde_json::from_str(&body).map_err(|e| Fail::new("c19/explorer/states-json", format!("{}: {}", e, body)))?;
                    let entries = v.as_array().cloned().unwrap_or_default();
                    let edges = &g.edges[last as usize];
                    ensure!(entries.len() == edges.len(), "c19/explorer/enabled-actions-count", "GET {}: {} entries, state {} has {} enabled actions", url, entries.len(), last, edges.len());
                    for (a, (e, t)) in entries.iter().zip(edges).enumerate() {
                        ensure!(e["action"].as_str() == Some(&gm.format_action(&(a as u16))), "c19/explorer/action-label", "GET {}: entry #{} action {:?}, expected {:?}", url, a, e["action"], gm.format_action(&(a as u16)));
                        match t {
                            Some(t) => {
                                ensure!(e["fingerprint"].as_str() == Some(&fp(*t).to_string()) && e["state"].as_str() == Some(&format!("{:#?}", S(*t))), "c19/explorer/successor-entry", "GET {}: entry #{} is {} but action {} leads to state {} (fingerprint {})", url, a, e, a, t, fp(*t));
                                ensure!(e["outcome"].as_str() == Some(&format!("{:#?}", S(*t))), "c19/explorer/outcome", "GET {}: outcome {:?}", url, e["outcome"]);
                            }
                            None => {
                                ensure!(e.get("state").is_none() && e.get("fingerprint").is_none(), "c19/explorer/ignored-action-not-marked", "GET {}: action {} is ignored by the model but the entry is {}", url, a, e);
                                cov.label("ignored_action_entry");
                            }
                        }
                    }
                    checked += 1;
                    cov.label_if(states.len() >= 3, "walk_len>=2");
                }
            }
            // status: counts never decrease, state_count >= unique, witness paths decode to genuine witnesses
            if n % 5 == 4 {
                let (code, body) = get("/.status")?;
                ensure!(code == 200, "c19/explorer/status-code", "GET /.status -> {}", code);
                let st: Value = serde_json::from_str(&body).map_err(|e| Fail::new("c19/explorer/status-json", format!("{}: {}", e, body)))?;
                check_status(g, &gm, &st, &mut prev_counts)?;
                cov.label("status_polled");
            }
        }
        // run to completion and compare with the reference
        let (code, _) = http(port, "POST", "/.runtocompletion").map_err(|e| Fail::new("inconclusive/http", e))?;
        ensure!(code == 200, "c19/explorer/runtocompletion-status", "POST /.runtocompletion -> {}", code);
        let t0 = Instant::now();
        let last = loop {
            let (_, body) = get("/.status")?;
            let st: Value = serde_json::from_str(&body).map_err(|e| Fail::new("c19/explorer/status-json", format!("{}: {}", e, body)))?;
            check_status(g, &gm, &st, &mut prev_counts)?;
            if st["done"].as_bool() == Some(true) {
                break st;
            }
            if t0.elapsed() > Duration::from_secs(30) {
                fail!("c19/explorer/never-done-after-runtocompletion", "status still not done 30 s after POST /.runtocompletion: {}", st);
            }
            std::thread::sleep(Duration::from_millis(5));
        };
        ensure!(last["unique_state_count"].as_u64() == Some(r.set.len() as u64), "c19/explorer/completion-unique-count", "after completion unique_state_count={} but {} states are reachable", last["unique_state_count"], r.set.len());
        for (k, p) in g.props.iter().enumerate() {
            if let Some(want) = expect_discovery(g, &r.set, p) {
                let has = last["properties"].as_array().and_then(|a| a.iter().find(|x| x[1].as_str() == Some(PROP_NAMES[k]))).map_or(false, |x| !x[2].is_null());
                ensure!(has == want, "c19/explorer/completion-verdict", "property {} after completion: path present = {}, BFS verdict {}", PROP_NAMES[k], has, want);
            }
        }
        cov.label("run_to_completion");
        if checked >= 5 {
            cov.nontrivial(c);
            if cov.wants_sample() {
                cov.sample(json!({"graph": g, "requests": c.requests.len(), "valid_state_requests_checked": checked, "final_status": last}));
            }
        }
        Ok(())
    }
    fn mandatory(&self) -> Vec<&'static str> {
        vec!["invalid_sequence_404", "ignored_action_entry", "walk_len>=2", "status_polled", "run_to_completion", "junk_prepended_request"]
    }
}

fn check_status(g: &GraphDesc, gm: &GM, st: &Value, prev: &mut (u64, u64)) -> Result<(), Fail> {
    let sc = st["state_count"].as_u64().unwrap_or(0);
    let uc = st["unique_state_count"].as_u64().unwrap_or(0);
    ensure!(sc >= uc, "c19/explorer/status-state_count-below-unique", "status reports state_count={} < unique_state_count={}", sc, uc);
    ensure!(sc >= prev.0 && uc >= prev.1, "c19/explorer/status-counts-decreased", "counts went from {:?} to ({}, {})", prev, sc, uc);
    *prev = (sc, uc);
    let props = st["properties"].as_array().cloned().unwrap_or_default();
    ensure!(props.len() == g.props.len(), "c19/explorer/status-properties", "status lists {} properties, the model has {}", props.len(), g.props.len());
    for (k, p) in g.props.iter().enumerate() {
        let e = &props[k];
        ensure!(e[1].as_str() == Some(PROP_NAMES[k]), "c19/explorer/status-property-name", "{}", e);
        if let Some(enc) = e[2].as_str() {
            let fps: Vec<u64> = enc.split('/').filter_map(|x| x.parse().ok()).collect();
            ensure!(fps.len() == enc.split('/').count() && denotes_execution(g, &fps).is_some(), "c19/explorer/status-path-denotes-no-execution", "path {:?} reported for {} denotes no execution", enc, PROP_NAMES[k]);
            let path = catch_quiet(|| path_from_fingerprints(gm, &fps)).map_err(|e| Fail::new("c19/explorer/status-path-unusable", e))?;
            let holds = |s: &S| p.on.contains(&s.0);
            let has_succ = |s: &S| !g.succ_inb(s.0).is_empty();
            if let Err(f) = validate_discovery(gm, p.exp, &holds, &has_succ, &path, false, &|a, b| a == b) {
                fail!(format!("c19/explorer/status-{}", f.sig), "status path {:?} for {}: {}", enc, PROP_NAMES[k], f.detail);
            }
        }
    }
    Ok(())
}

pub fn spec() -> PropSpec {
    let _: (BTreeMap<u8, u8>, HashSet<u8>) = Default::default();
    PropSpec {
        id: "C19",
        level: "exploration",
        rule: "Three generated families. Path API: random walks over generated graph models -> action lists and fingerprint sequences; Path::from_actions / encode / from_fingerprints / final_state / into_* must denote the same execution; sequences corrupted by one edit (replaced element, dropped head, extra tail) and action lists with a disabled or ignored action are decided against an independent walk of the model. On-demand (threads(1)): generated orders of check_fingerprint requests for pending states (and for unknown fingerprints) - the visitor must see exactly the requested states in order, state_count/unique_state_count must match the reference bookkeeping, and after run_to_completion the evaluated set, counts and always/sometimes verdicts equal BFS and join returns. Explorer: a real HTTP server per generated model on a loopback port, 30-50 raw-socket requests each: GET /.states, GET /.states/<fingerprints> for valid and corrupted sequences (entries = enabled actions in order with format_action, {:#?} of the successor, its fingerprint, ignored actions without state; 404 otherwise), /.status polls (counts monotone, state_count >= unique, every reported path decodes to a genuine witness), POST /.runtocompletion then status until done = reference counts and verdicts. Non-trivial = walks of >= 2 steps / >= 2 targeted requests / >= 5 valid state requests per server; distinct by hash of the case.",
        assumptions: vec!["ui/app.js (browser code) is outside the reach of this harness", "each Explorer server leaks its accept thread and port for the life of the check process (serve() never returns)"],
        subs: vec![Box::new(PathApi), Box::new(OnDemand), Box::new(Explorer)],
    }
}
