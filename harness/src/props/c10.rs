//! C10 — symmetry reduction preserves verdicts; representatives stay in their orbit.

use crate::engine::*;
use crate::graph::validate_path;
use crate::props::c03::validate_discovery;
use crate::runner::*;
use crate::{ensure, fail};
use proptest::prelude::*;
use serde::{Deserialize, Serialize};
use serde_json::json;
use stateright::actor::*;
use stateright::util::{DenseNatMap, HashableHashMap, HashableHashSet};
use stateright::{Expectation, Model, Property, Representative, Rewrite, RewritePlan};
use std::borrow::Cow;
use std::collections::{BTreeMap, BTreeSet, HashSet, VecDeque};
use std::sync::Arc;
use std::time::Duration;

/// sigma[old index] = new index under the stable sort of `keys`.
pub fn stable_sigma<K: Ord>(keys: &[K]) -> Vec<usize> {
    let mut idx: Vec<usize> = (0..keys.len()).collect();
    idx.sort_by(|a, b| keys[*a].cmp(&keys[*b])); // stable
    let mut sigma = vec![0; keys.len()];
    for (new, old) in idx.iter().enumerate() {
        sigma[*old] = new;
    }
    sigma
}

// ---------------------------------------------------------------------------------------------
// (b) representative() of actor-system states
// ---------------------------------------------------------------------------------------------

#[derive(Clone, Debug, PartialEq, Eq, PartialOrd, Ord, Hash, Serialize, Deserialize)]
pub struct PState {
    pub v: u8,
    pub peers: Vec<usize>,
}
/// Actor state holding ids.
#[derive(Clone, Debug, PartialEq, Eq, PartialOrd, Ord, Hash)]
pub struct IdState {
    pub v: u8,
    pub peers: Vec<Id>,
}
impl Rewrite<Id> for IdState {
    fn rewrite<S>(&self, plan: &RewritePlan<Id, S>) -> Self {
        IdState { v: self.v, peers: self.peers.rewrite(plan) }
    }
}
pub struct IdActor;
impl Actor for IdActor {
    type Msg = (u8, Id);
    type State = IdState;
    type Timer = u8;
    type Random = Id;
    fn on_start(&self, _: Id, _: &mut Out<Self>) -> IdState {
        IdState { v: 0, peers: vec![] }
    }
}

#[derive(Clone, Debug, Serialize, Deserialize, PartialEq, Eq, Hash)]
pub struct RepCase {
    pub actors: Vec<PState>,
    pub net: u8,
    pub envs: Vec<(usize, usize, u8, usize)>,
    pub last: Option<(usize, usize, u8, usize)>,
    pub timers: Vec<BTreeSet<u8>>,
    pub crashed: Vec<bool>,
    pub choices: Vec<BTreeMap<u8, Vec<usize>>>,
    pub history: Vec<usize>,
}

fn id(i: usize) -> Id {
    Id::from(i)
}

pub struct RepresentativeOfStates;
impl SubCheck for RepresentativeOfStates {
    fn fuzzable(&self) -> bool {
        true
    }
    type Case = RepCase;
    fn name(&self) -> &'static str {
        "representative_of_actor_states"
    }
    fn cases(&self, tier: Tier) -> u32 {
        tier.pick(20000, 400000)
    }
    fn strategy(&self, _tier: Tier) -> BoxedStrategy<RepCase> {
        (1usize..=4)
            .prop_flat_map(|n| {
                let env = move || (0..n, 0..n, 0u8..3, 0..n);
                (
                    proptest::collection::vec((0u8..3, proptest::collection::vec(0..n, 0..3)).prop_map(|(v, peers)| PState { v, peers }), n),
                    0u8..3,
                    proptest::collection::vec(env(), 0..5),
                    proptest::option::of(env()),
                    proptest::collection::vec(proptest::collection::btree_set(0u8..3, 0..3), n),
                    proptest::collection::vec(proptest::bool::weighted(0.3), n),
                    proptest::collection::vec(proptest::collection::btree_map(0u8..2, proptest::collection::vec(0..n, 1..3), 0..2), n),
                    proptest::collection::vec(0..n, 0..5),
                )
            })
            .prop_map(|(actors, net, envs, last, timers, crashed, choices, history)| RepCase { actors, net, envs, last, timers, crashed, choices, history })
            .boxed()
    }
    fn check(&self, c: &RepCase, cov: &mut Cov) -> Result<(), Fail> {
        let n = c.actors.len();
        let env = |e: &(usize, usize, u8, usize)| Envelope { src: id(e.0), dst: id(e.1), msg: (e.2, id(e.3)) };
        let network = match c.net {
            0 => Network::new_ordered(c.envs.iter().map(env)),
            1 => Network::new_unordered_nonduplicating(c.envs.iter().map(env)),
            _ => Network::new_unordered_duplicating_with_last_msg(c.envs.iter().map(env), c.last.as_ref().map(env)),
        };
        let mk_timers = |t: &BTreeSet<u8>| {
            let mut x = Timers::new();
            for v in t {
                x.set(*v);
            }
            x
        };
        let mk_choices = |m: &BTreeMap<u8, Vec<usize>>| {
            let mut x = RandomChoices::default();
            for (k, v) in m {
                x.insert(format!("k{}", k), v.iter().map(|i| id(*i)).collect());
            }
            x
        };
        let st = ActorModelState::<IdActor, Vec<Id>> {
            actor_states: c.actors.iter().map(|a| Arc::new(IdState { v: a.v, peers: a.peers.iter().map(|p| id(*p)).collect() })).collect(),
            network,
            timers_set: c.timers.iter().map(mk_timers).collect(),
            random_choices: c.choices.iter().map(mk_choices).collect(),
            crashed: c.crashed.clone(),
            history: c.history.iter().map(|h| id(*h)).collect(),
        };
        let rep = st.representative();
        cov.eval();
        // the harness's own application of the stable sorting permutation
        let sigma = stable_sigma(&c.actors);
        let mut e_actors = vec![PState { v: 0, peers: vec![] }; n];
        let mut e_timers = vec![BTreeSet::new(); n];
        let mut e_crashed = vec![false; n];
        let mut e_choices: Vec<BTreeMap<u8, Vec<usize>>> = vec![BTreeMap::new(); n];
        for i in 0..n {
            e_actors[sigma[i]] = PState { v: c.actors[i].v, peers: c.actors[i].peers.iter().map(|p| sigma[*p]).collect() };
            e_timers[sigma[i]] = c.timers[i].clone();
            e_crashed[sigma[i]] = c.crashed[i];
            e_choices[sigma[i]] = c.choices[i].iter().map(|(k, v)| (*k, v.iter().map(|x| sigma[*x]).collect())).collect();
        }
        let e_hist: Vec<usize> = c.history.iter().map(|h| sigma[*h]).collect();
        let map_env = |e: &(usize, usize, u8, usize)| (sigma[e.0], sigma[e.1], e.2, sigma[e.3]);
        // observed
        let g_actors: Vec<PState> = rep.actor_states.iter().map(|a| PState { v: a.v, peers: a.peers.iter().map(|p| usize::from(*p)).collect() }).collect();
        ensure!(g_actors == e_actors, "c10/representative/actor_states", "sigma={:?}: actor states {:?}, expected {:?} (from {:?})", sigma, g_actors, e_actors, c.actors);
        let g_timers: Vec<BTreeSet<u8>> = rep.timers_set.iter().map(|t| t.iter().cloned().collect()).collect();
        ensure!(g_timers == e_timers, "c10/representative/timers", "sigma={:?}: timers {:?}, expected {:?}", sigma, g_timers, e_timers);
        ensure!(rep.crashed == e_crashed, "c10/representative/crashed", "sigma={:?}: crashed {:?}, expected {:?} (from {:?})", sigma, rep.crashed, e_crashed, c.crashed);
        let g_choices: Vec<BTreeMap<u8, Vec<usize>>> = rep.random_choices.iter().map(|r| r.map.iter().map(|(k, v)| (k[1..].parse().unwrap(), v.iter().map(|x| usize::from(*x)).collect())).collect()).collect();
        ensure!(g_choices == e_choices, "c10/representative/random_choices", "sigma={:?}: random choices {:?}, expected {:?}", sigma, g_choices, e_choices);
        let g_hist: Vec<usize> = rep.history.iter().map(|h| usize::from(*h)).collect();
        ensure!(g_hist == e_hist, "c10/representative/history", "sigma={:?}: history {:?}, expected {:?}", sigma, g_hist, e_hist);
        let de = |e: &Envelope<(u8, Id)>| (usize::from(e.src), usize::from(e.dst), e.msg.0, usize::from(e.msg.1));
        match &rep.network {
            Network::Ordered(m) => {
                let got: BTreeMap<(usize, usize), Vec<(u8, usize)>> = m.iter().map(|((s, d), q)| ((usize::from(*s), usize::from(*d)), q.iter().map(|x| (x.0, usize::from(x.1))).collect())).collect();
                let mut want: BTreeMap<(usize, usize), Vec<(u8, usize)>> = BTreeMap::new();
                for e in &c.envs {
                    let m = map_env(e);
                    want.entry((m.0, m.1)).or_default().push((m.2, m.3));
                }
                ensure!(got == want, "c10/representative/network", "sigma={:?}: ordered network {:?}, expected {:?}", sigma, got, want);
            }
            Network::UnorderedNonDuplicating(m) => {
                let got: BTreeMap<_, usize> = m.iter().map(|(e, k)| (de(e), *k)).collect();
                let mut want: BTreeMap<_, usize> = BTreeMap::new();
                for e in &c.envs {
                    *want.entry(map_env(e)).or_insert(0) += 1;
                }
                ensure!(got == want, "c10/representative/network", "sigma={:?}: network {:?}, expected {:?}", sigma, got, want);
            }
            Network::UnorderedDuplicating(set, last) => {
                let got: BTreeSet<_> = set.iter().map(de).collect();
                let want: BTreeSet<_> = c.envs.iter().map(map_env).collect();
                ensure!(got == want, "c10/representative/network", "sigma={:?}: network {:?}, expected {:?}", sigma, got, want);
                ensure!(last.as_ref().map(de) == c.last.as_ref().map(map_env), "c10/representative/last-delivered", "sigma={:?}: last delivered {:?}, expected {:?}", sigma, last, c.last.as_ref().map(map_env));
            }
        }
        // the representative of a representative has a sorted actor vector (original keys are sorted)
        let sorted = {
            let mut s = c.actors.clone();
            s.sort();
            s
        };
        ensure!(e_actors.iter().map(|a| a.v).collect::<Vec<_>>() == sorted.iter().map(|a| a.v).collect::<Vec<_>>(), "c10/harness-sigma", "harness sigma does not sort");
        let non_id = sigma.iter().enumerate().any(|(i, s)| i != *s);
        let ties = sorted.windows(2).any(|w| w[0] == w[1]);
        cov.label_if(non_id, "non_identity_permutation");
        cov.label_if(ties, "ties");
        cov.label(match c.net {
            0 => "net_ordered",
            1 => "net_nonduplicating",
            _ => "net_duplicating",
        });
        cov.label_if(c.crashed.iter().any(|x| *x) && non_id, "crashed_moved");
        if non_id || ties {
            cov.nontrivial(c);
            if cov.wants_sample() {
                cov.sample(json!({"case": c, "sigma": sigma, "representative": format!("{:?}", rep)}));
            }
        }
        Ok(())
    }
    fn mandatory(&self) -> Vec<&'static str> {
        vec!["non_identity_permutation", "ties", "net_ordered", "net_nonduplicating", "net_duplicating", "crashed_moved"]
    }
}

// ---------------------------------------------------------------------------------------------
// (c) plans built by sorting, reindex and rewrite of data structures
// ---------------------------------------------------------------------------------------------

#[derive(Clone, Debug, Serialize, Deserialize, PartialEq, Eq, Hash)]
pub struct PlanCase {
    pub keys: Vec<u8>,
    pub ids: Vec<usize>,
    pub vals: Vec<u8>,
}

pub struct PlansAndStructures;
impl SubCheck for PlansAndStructures {
    fn fuzzable(&self) -> bool {
        true
    }
    type Case = PlanCase;
    fn name(&self) -> &'static str {
        "plans_reindex_rewrite"
    }
    fn cases(&self, tier: Tier) -> u32 {
        tier.pick(20000, 400000)
    }
    fn strategy(&self, _tier: Tier) -> BoxedStrategy<PlanCase> {
        // mostly short vectors; sometimes long ones with many ties (sorting algorithms switch
        // strategy with the length)
        prop_oneof![6 => (1usize..=6).boxed(), 1 => (7usize..=32).boxed(), 2 => (33usize..=96).boxed()]
            .prop_flat_map(|n| (proptest::collection::vec(0u8..4, n), proptest::collection::vec(0..n, 0..7), proptest::collection::vec(0u8..5, n)))
            .prop_map(|(keys, ids, vals)| PlanCase { keys, ids, vals })
            .boxed()
    }
    fn check(&self, c: &PlanCase, cov: &mut Cov) -> Result<(), Fail> {
        let n = c.keys.len();
        let plan: RewritePlan<Id, _> = RewritePlan::from_values_to_sort(&c.keys);
        let sigma = stable_sigma(&c.keys);
        cov.eval();
        // the plan is the stable sorting permutation
        for i in 0..n {
            ensure!(usize::from(plan.rewrite(&id(i))) == sigma[i], "c10/plan/not-the-stable-sort-permutation", "keys {:?}: plan maps {} to {:?}, the stable sort puts it at {}", c.keys, i, plan.rewrite(&id(i)), sigma[i]);
        }
        // reindex moves element i to position sigma(i) (and rewrites it)
        let re = plan.reindex(&c.vals);
        for i in 0..n {
            ensure!(re[sigma[i]] == c.vals[i], "c10/plan/reindex-wrong", "keys {:?} values {:?}: reindex gives {:?}, element {} belongs at {}", c.keys, c.vals, re, i, sigma[i]);
        }
        let re_ids = plan.reindex(&(0..n).map(id).collect::<Vec<Id>>());
        for i in 0..n {
            ensure!(re_ids[sigma[i]] == id(sigma[i]), "c10/plan/reindex-does-not-rewrite-elements", "reindex of the id vector gives {:?}", re_ids);
        }
        let dq: VecDeque<u8> = c.vals.iter().copied().collect();
        ensure!(plan.reindex(&dq).into_iter().collect::<Vec<_>>() == re, "c10/plan/reindex-vecdeque-differs", "VecDeque reindex differs from Vec reindex");
        // sorting a vector with its own plan sorts it and keeps equal elements in order
        let sorted = plan.reindex(&c.keys);
        let mut want_sorted = c.keys.clone();
        want_sorted.sort();
        ensure!(sorted == want_sorted, "c10/plan/reindex-of-keys-not-sorted", "keys {:?} reindexed by their own plan: {:?}", c.keys, sorted);
        let tagged: Vec<(u8, usize)> = c.keys.iter().copied().zip(0..).collect();
        let re_tagged = plan.reindex(&tagged.iter().map(|(k, i)| (*k, *i as u64)).collect::<Vec<(u8, u64)>>());
        let mut want_tagged = tagged.clone();
        want_tagged.sort_by_key(|t| t.0);
        ensure!(re_tagged.iter().map(|(k, i)| (*k, *i as usize)).collect::<Vec<_>>() == want_tagged, "c10/plan/sort-not-stable", "keys {:?}: equal elements changed order: {:?}", c.keys, re_tagged);
        // rewrite = structural map of sigma over ids
        let ids: Vec<Id> = c.ids.iter().map(|i| id(*i)).collect();
        let m = |i: &usize| sigma[*i];
        ensure!(ids.rewrite(&plan).iter().map(|x| usize::from(*x)).collect::<Vec<_>>() == c.ids.iter().map(m).collect::<Vec<_>>(), "c10/rewrite/vec", "Vec<Id> {:?}", c.ids);
        let dqi: VecDeque<Id> = ids.iter().copied().collect();
        ensure!(dqi.rewrite(&plan).iter().map(|x| usize::from(*x)).collect::<Vec<_>>() == c.ids.iter().map(m).collect::<Vec<_>>(), "c10/rewrite/vecdeque", "VecDeque<Id>");
        let bs: BTreeSet<Id> = ids.iter().copied().collect();
        ensure!(bs.rewrite(&plan).iter().map(|x| usize::from(*x)).collect::<BTreeSet<_>>() == c.ids.iter().map(m).collect::<BTreeSet<_>>(), "c10/rewrite/btreeset", "BTreeSet<Id>");
        let bm: BTreeMap<Id, u8> = c.ids.iter().map(|i| (id(*i), c.vals[*i])).collect();
        ensure!(bm.rewrite(&plan).iter().map(|(k, v)| (usize::from(*k), *v)).collect::<BTreeMap<_, _>>() == c.ids.iter().map(|i| (sigma[*i], c.vals[*i])).collect::<BTreeMap<_, _>>(), "c10/rewrite/btreemap", "BTreeMap<Id,u8>");
        let hs: HashableHashSet<Id> = ids.iter().copied().collect();
        ensure!(hs.rewrite(&plan).iter().map(|x| usize::from(*x)).collect::<BTreeSet<_>>() == c.ids.iter().map(m).collect::<BTreeSet<_>>(), "c10/rewrite/hashable-hash-set", "HashableHashSet<Id>");
        let hm: HashableHashMap<Id, Id> = c.ids.iter().map(|i| (id(*i), id((*i + 1) % n))).collect();
        ensure!(hm.rewrite(&plan).iter().map(|(k, v)| (usize::from(*k), usize::from(*v))).collect::<BTreeMap<_, _>>() == c.ids.iter().map(|i| (sigma[*i], sigma[(*i + 1) % n])).collect::<BTreeMap<_, _>>(), "c10/rewrite/hashable-hash-map", "HashableHashMap<Id,Id>");
        let op: Option<Id> = ids.first().copied();
        ensure!(op.rewrite(&plan).map(usize::from) == c.ids.first().map(m), "c10/rewrite/option", "Option<Id>");
        let tp: (Id, u8) = (id(0), 7);
        ensure!(tp.rewrite(&plan) == (id(sigma[0]), 7), "c10/rewrite/tuple", "(Id,u8)");
        // DenseNatMap: rewriting moves each value to the rewritten key = reindex of the values
        let dm: DenseNatMap<Id, Id> = (0..n).map(|i| id((i * 3 + 1) % n)).collect::<Vec<Id>>().into();
        let rw = dm.rewrite(&plan);
        let via_reindex: Vec<Id> = plan.reindex(&dm.values().copied().collect::<Vec<Id>>());
        ensure!(rw.values().copied().collect::<Vec<_>>() == via_reindex, "c10/rewrite/dense-nat-map-differs-from-reindex", "DenseNatMap::rewrite {:?} vs reindex {:?}", rw, via_reindex);
        for i in 0..n {
            ensure!(rw.get(id(sigma[i])).copied() == Some(id(sigma[(i * 3 + 1) % n])), "c10/rewrite/dense-nat-map", "DenseNatMap rewrite wrong at {}", i);
        }
        // envelopes and the three network kinds
        if c.ids.len() >= 2 {
            let e = Envelope { src: ids[0], dst: ids[1], msg: (c.vals[0], ids[0]) };
            let r = e.rewrite(&plan);
            ensure!((usize::from(r.src), usize::from(r.dst), r.msg.0, usize::from(r.msg.1)) == (sigma[c.ids[0]], sigma[c.ids[1]], c.vals[0], sigma[c.ids[0]]), "c10/rewrite/envelope", "Envelope {:?} -> {:?}", e, r);
            let envs: Vec<Envelope<(u8, Id)>> = c.ids.windows(2).map(|w| Envelope { src: id(w[0]), dst: id(w[1]), msg: (c.vals[w[0]], id(w[1])) }).collect();
            let mapped: Vec<Envelope<(u8, Id)>> = c.ids.windows(2).map(|w| Envelope { src: id(sigma[w[0]]), dst: id(sigma[w[1]]), msg: (c.vals[w[0]], id(sigma[w[1]])) }).collect();
            ensure!(Network::new_ordered(envs.clone()).rewrite(&plan) == Network::new_ordered(mapped.clone()), "c10/rewrite/network-ordered", "ordered network of {:?}", envs);
            ensure!(Network::new_unordered_nonduplicating(envs.clone()).rewrite(&plan) == Network::new_unordered_nonduplicating(mapped.clone()), "c10/rewrite/network-nonduplicating", "non-duplicating network of {:?}", envs);
            ensure!(Network::new_unordered_duplicating_with_last_msg(envs.clone(), envs.first().cloned()).rewrite(&plan) == Network::new_unordered_duplicating_with_last_msg(mapped.clone(), mapped.first().cloned()), "c10/rewrite/network-duplicating", "duplicating network of {:?}", envs);
            cov.label("networks_rewritten");
        }
        let non_id = sigma.iter().enumerate().any(|(i, s)| i != *s);
        let ties = want_sorted.windows(2).any(|w| w[0] == w[1]);
        cov.label_if(non_id, "non_identity_permutation");
        cov.label_if(ties, "ties");
        cov.label_if(n >= 33 && ties, "long_vector_with_ties");
        if non_id || ties {
            cov.nontrivial(c);
            if cov.wants_sample() && n <= 8 {
                cov.sample(json!({"keys": c.keys, "sigma": sigma, "ids": c.ids, "values": c.vals, "reindexed_values": re}));
            }
        }
        Ok(())
    }
    fn mandatory(&self) -> Vec<&'static str> {
        vec!["non_identity_permutation", "ties", "networks_rewritten", "long_vector_with_ties"]
    }
}

// ---------------------------------------------------------------------------------------------
// (a) symmetric models: DFS with and without symmetry reduction
// ---------------------------------------------------------------------------------------------

pub const SYM_PROP_NAMES: [&str; 4] = ["s0", "s1", "s2", "s3"];
const L: usize = 3; // local states
const G: usize = 3; // shared values

#[derive(Clone, Debug, Serialize, Deserialize, PartialEq, Eq, Hash)]
pub struct SymRule {
    /// `[local][g][owner relation: 0 none, 1 me, 2 other]` -> (new local, new g, owner effect: 0 keep, 1 take, 2 release)
    pub table: Vec<Vec<Vec<Option<(u8, u8, u8)>>>>,
    /// additionally requires that some *other* process is in this local state
    pub needs_other_in: Option<u8>,
}

#[derive(Clone, Debug, Serialize, Deserialize, PartialEq, Eq, Hash)]
pub struct SymProp {
    pub exp: crate::graph::Exp,
    /// 0: g == x; 1: some process has local x; 2: no process has local x; 3: the owner exists and
    /// has local x; 4: at least two processes have local x
    pub kind: u8,
    pub x: u8,
}

#[derive(Clone, Debug, Serialize, Deserialize, PartialEq, Eq, Hash)]
pub struct SymDesc {
    pub n: usize,
    pub init_locals: Vec<u8>,
    pub init_g: u8,
    pub rules: Vec<SymRule>,
    pub props: Vec<SymProp>,
    /// boundary: states with g == this value are outside (symmetric predicate)
    pub oob_g: Option<u8>,
}

#[derive(Clone, Debug, PartialEq, Eq, Hash, PartialOrd, Ord)]
pub struct SymState {
    pub procs: Vec<u8>,
    pub g: u8,
    pub owner: Option<Id>,
}
impl Representative for SymState {
    fn representative(&self) -> Self {
        let plan: RewritePlan<Id, _> = RewritePlan::from_values_to_sort(&self.procs);
        SymState { procs: plan.reindex(&self.procs), g: self.g, owner: self.owner.rewrite(&plan) }
    }
}

#[derive(Clone)]
pub struct SymModel(pub Arc<SymDesc>);

fn sym_holds(p: &SymProp, s: &SymState) -> bool {
    let x = p.x % 3;
    match p.kind % 6 {
        5 => true,
        0 => s.g == x,
        1 => s.procs.iter().any(|l| *l == x),
        2 => !s.procs.iter().any(|l| *l == x),
        3 => s.owner.map_or(false, |o| s.procs[usize::from(o)] == x),
        _ => s.procs.iter().filter(|l| **l == x).count() >= 2,
    }
}
macro_rules! sym_conds {
    ($($name:ident = $k:expr),*) => { $(fn $name(m: &SymModel, s: &SymState) -> bool { sym_holds(&m.0.props[$k], s) })* };
}
sym_conds!(sc0 = 0, sc1 = 1, sc2 = 2, sc3 = 3);
const SYM_CONDS: [fn(&SymModel, &SymState) -> bool; 4] = [sc0, sc1, sc2, sc3];

impl Model for SymModel {
    type State = SymState;
    type Action = (usize, usize);
    fn init_states(&self) -> Vec<SymState> {
        vec![SymState { procs: self.0.init_locals.clone(), g: self.0.init_g, owner: None }]
    }
    fn actions(&self, _s: &SymState, actions: &mut Vec<(usize, usize)>) {
        for i in 0..self.0.n {
            for r in 0..self.0.rules.len() {
                actions.push((i, r));
            }
        }
    }
    fn next_state(&self, s: &SymState, (i, r): (usize, usize)) -> Option<SymState> {
        let rule = &self.0.rules[r];
        if let Some(x) = rule.needs_other_in {
            if !s.procs.iter().enumerate().any(|(j, l)| j != i && *l == x) {
                return None;
            }
        }
        let rel = match s.owner {
            None => 0,
            Some(o) if usize::from(o) == i => 1,
            Some(_) => 2,
        };
        let (nl, ng, oe) = rule.table[s.procs[i] as usize][s.g as usize][rel]?;
        let mut n = s.clone();
        n.procs[i] = nl % L as u8;
        n.g = ng % G as u8;
        match oe % 3 {
            1 => n.owner = Some(Id::from(i)),
            2 => n.owner = None,
            _ => {}
        }
        Some(n)
    }
    fn within_boundary(&self, s: &SymState) -> bool {
        self.0.oob_g != Some(s.g)
    }
    fn properties(&self) -> Vec<Property<Self>> {
        self.0
            .props
            .iter()
            .enumerate()
            .map(|(k, p)| Property {
                expectation: match p.exp {
                    crate::graph::Exp::Always => Expectation::Always,
                    crate::graph::Exp::Sometimes => Expectation::Sometimes,
                    crate::graph::Exp::Eventually => Expectation::Eventually,
                },
                name: SYM_PROP_NAMES[k],
                condition: SYM_CONDS[k],
            })
            .collect()
    }
}

pub fn sym_strategy() -> BoxedStrategy<SymDesc> {
    let cell = proptest::option::weighted(0.45, (0u8..3, 0u8..3, 0u8..3));
    let rule = (proptest::collection::vec(proptest::collection::vec(proptest::collection::vec(cell, 3), G), L), proptest::option::weighted(0.25, 0u8..3)).prop_map(|(table, needs_other_in)| SymRule { table, needs_other_in });
    let prop = (prop_oneof![Just(crate::graph::Exp::Always), Just(crate::graph::Exp::Sometimes)], 0u8..5, 0u8..3).prop_map(|(exp, kind, x)| SymProp { exp, kind, x });
    (2usize..=4)
        .prop_flat_map(move |n| (Just(n), proptest::collection::vec(0u8..2, n), 0u8..3, proptest::collection::vec(rule.clone(), 1..=3), proptest::collection::vec(prop.clone(), 1..=4), proptest::option::weighted(0.3, 1u8..3)))
        .prop_map(|(n, init_locals, init_g, rules, mut props, oob_g)| {
            // mostly keep the run from stopping early: an always-property that holds everywhere
            if props.len() < 4 && init_g != 2 {
                props.insert(0, SymProp { exp: crate::graph::Exp::Always, kind: 5, x: 0 });
            }
            SymDesc { n, init_locals, oob_g: oob_g.filter(|g| *g != init_g), init_g, rules, props }
        })
        .boxed()
}

fn permutations(n: usize) -> Vec<Vec<usize>> {
    fn rec(cur: &mut Vec<usize>, used: &mut Vec<bool>, out: &mut Vec<Vec<usize>>) {
        if cur.len() == used.len() {
            out.push(cur.clone());
            return;
        }
        for i in 0..used.len() {
            if !used[i] {
                used[i] = true;
                cur.push(i);
                rec(cur, used, out);
                cur.pop();
                used[i] = false;
            }
        }
    }
    let mut out = vec![];
    rec(&mut vec![], &mut vec![false; n], &mut out);
    out
}
/// applies permutation p (old index -> new index)
fn permute(s: &SymState, p: &[usize]) -> SymState {
    let mut procs = vec![0; s.procs.len()];
    for (i, l) in s.procs.iter().enumerate() {
        procs[p[i]] = *l;
    }
    SymState { procs, g: s.g, owner: s.owner.map(|o| Id::from(p[usize::from(o)])) }
}
fn canonical(s: &SymState, perms: &[Vec<usize>]) -> SymState {
    perms.iter().map(|p| permute(s, p)).min().unwrap()
}

#[derive(Clone, Debug, Serialize, Deserialize, PartialEq, Eq, Hash)]
pub struct SymCase {
    pub d: SymDesc,
    pub threads: usize,
    pub block: Option<usize>,
    pub sim_seed: u64,
}

pub struct SymmetricModels;
impl SubCheck for SymmetricModels {
    type Case = SymCase;
    fn name(&self) -> &'static str {
        "dfs_with_and_without_symmetry"
    }
    fn cases(&self, tier: Tier) -> u32 {
        tier.pick(1500, 30000)
    }
    fn strategy(&self, _tier: Tier) -> BoxedStrategy<SymCase> {
        (sym_strategy(), prop_oneof![Just(1usize), Just(2usize), Just(4usize)], block_strategy(), 0u64..1000).prop_map(|(d, threads, block, sim_seed)| SymCase { d, threads, block, sim_seed }).boxed()
    }
    fn check(&self, c: &SymCase, cov: &mut Cov) -> Result<(), Fail> {
        let model = SymModel(Arc::new(c.d.clone()));
        let perms = permutations(c.d.n);
        // reference reachable set of the original model
        let mut reach: HashSet<SymState> = HashSet::new();
        let mut stack = model.init_states();
        for s in &stack {
            reach.insert(s.clone());
        }
        while let Some(s) = stack.pop() {
            let mut acts = vec![];
            model.actions(&s, &mut acts);
            for a in acts {
                if let Some(n) = model.next_state(&s, a) {
                    if model.within_boundary(&n) && reach.insert(n.clone()) {
                        stack.push(n);
                    }
                }
                if reach.len() > 20000 {
                    cov.label("too_large_skipped");
                    return Ok(());
                }
            }
        }
        // the generated model really is symmetric (transition relation and properties commute
        // with every permutation) - a harness self-check, so that a failure below is not ours
        for s in reach.iter().take(40) {
            for p in &perms {
                let ps = permute(s, p);
                for (k, pr) in c.d.props.iter().enumerate() {
                    if sym_holds(pr, s) != sym_holds(pr, &ps) {
                        fail!("inconclusive/generated-model-not-symmetric", "property {} not invariant", k);
                    }
                }
                for i in 0..c.d.n {
                    for r in 0..c.d.rules.len() {
                        let a = model.next_state(s, (i, r)).map(|n| permute(&n, p));
                        let b = model.next_state(&ps, (p[i], r));
                        if a != b {
                            fail!("inconclusive/generated-model-not-symmetric", "rule {} of process {} does not commute with {:?}", r, i, p);
                        }
                    }
                }
            }
        }
        let names = &SYM_PROP_NAMES[..c.d.props.len()];
        let cfg_plain = RunCfg::plain(Strat::Dfs, c.threads).with_block(c.block);
        let mut cfg_sym = cfg_plain.clone();
        cfg_sym.symmetry = true;
        let rep: fn(&SymState) -> SymState = |s| s.representative();
        let plain = run_checker(model.clone(), &cfg_plain, names, None, true, Duration::from_secs(120));
        let sym = run_checker(model.clone(), &cfg_sym, names, Some(rep), true, Duration::from_secs(120));
        if plain.gave_up || sym.gave_up {
            fail!("inconclusive/workers-did-not-finish", "{:?}", cfg_sym);
        }
        cov.eval();
        let (dp, ds) = match (&plain.discoveries, &sym.discoveries) {
            (Ok(a), Ok(b)) => (a, b),
            (_, Err(e)) => fail!("c10/symmetry/discoveries-panicked", "discoveries() of the symmetry-reduced run panicked: {}", e),
            (Err(e), _) => fail!("c10/plain/discoveries-panicked", "{}", e),
        };
        let mut mixed = (false, false);
        for (k, p) in c.d.props.iter().enumerate() {
            let want = match p.exp {
                crate::graph::Exp::Always => reach.iter().any(|s| !sym_holds(p, s)),
                _ => reach.iter().any(|s| sym_holds(p, s)),
            };
            if want {
                mixed.0 = true;
            } else {
                mixed.1 = true;
            }
            let (gp, gs) = (dp.contains_key(names[k]), ds.contains_key(names[k]));
            ensure!(gs == want, "c10/symmetry/verdict-differs-from-reference", "property {} ({:?}): the symmetry-reduced DFS {} a discovery, the reference over {} reachable states says {} (plain DFS: {})", names[k], p, if gs { "reports" } else { "lacks" }, reach.len(), want, gp);
            ensure!(gp == want, "c10/plain/verdict-differs-from-reference", "property {} under plain DFS", names[k]);
            if let Some(path) = ds.get(names[k]) {
                let holds = |s: &SymState| sym_holds(p, s);
                let has_succ = |_: &SymState| true;
                if let Err(f) = validate_discovery(&model, p.exp, &holds, &has_succ, path, false, &|a, b| a == b) {
                    fail!(format!("c10/symmetry/{}", f.sig), "path reported under symmetry reduction for {}: {}", names[k], f.detail);
                }
            }
        }
        // (counts are only comparable when neither run stopped early because every property had a discovery)
        let early = ds.len() == c.d.props.len() || dp.len() == c.d.props.len();
        ensure!(early || sym.unique <= plain.unique, "c10/symmetry/more-states-than-unreduced", "symmetry-reduced run reports {} unique states, the unreduced one {}", sym.unique, plain.unique);
        // every visitor path of the reduced run is a real execution of the original model
        let mut orbits_seen: HashSet<SymState> = HashSet::new();
        for v in &sym.visits {
            if let Err(f) = crate::graph::validate_steps(&model, &v.path) {
                fail!(format!("c10/symmetry/visitor-{}", f.sig), "{}", f.detail);
            }
            orbits_seen.insert(canonical(&v.path.last().unwrap().0, &perms));
        }
        let all_discovered = ds.len() == c.d.props.len();
        if !all_discovered {
            let orbits: HashSet<SymState> = reach.iter().map(|s| canonical(s, &perms)).collect();
            let missing = orbits.difference(&orbits_seen).count();
            ensure!(missing == 0, "c10/symmetry/orbit-never-evaluated", "{} of {} symmetry classes of reachable states were never evaluated by the reduced run", missing, orbits.len());
            cov.label_if(orbits.len() < reach.len(), "reduction_possible");
            cov.label_if(sym.unique < plain.unique, "reduced");
        }
        // simulation with symmetry: reported paths are real executions
        let mut cfg_sim = RunCfg::plain(Strat::Sim(c.sim_seed), 1);
        cfg_sim.symmetry = true;
        cfg_sim.target_state_count = Some(60);
        let simo = run_checker(model.clone(), &cfg_sim, names, Some(rep), false, Duration::from_secs(60));
        if let Ok(d) = &simo.discoveries {
            for (name, path) in d {
                if let Err(f) = validate_path(&model, path) {
                    fail!(format!("c10/simulation-symmetry/{}", f.sig), "path for {} under simulation with symmetry: {}", name, f.detail);
                }
            }
        }
        cov.label_if(c.threads > 1, "threads>1");
        if mixed.0 && mixed.1 && reach.len() >= 4 {
            cov.nontrivial(c);
            if cov.wants_sample() {
                cov.sample(json!({"model": c.d, "reachable": reach.len(), "unique_plain": plain.unique, "unique_symmetry": sym.unique, "discovered": ds.keys().collect::<Vec<_>>()}));
            }
        }
        Ok(())
    }
    fn mandatory(&self) -> Vec<&'static str> {
        vec!["reduced", "reduction_possible", "threads>1"]
    }
}

pub fn spec() -> PropSpec {
    let _ = (Cow::Borrowed(&0u8), fail_unused as fn() -> Result<(), Fail>);
    PropSpec {
        id: "C10",
        level: "exploration",
        rule: "(a) Generated symmetric models (2-4 identical processes with local state, a shared scalar and an optional owner; rule tables phrased only in terms of 'me / some other process / owner is me|other|none', properties over the multiset of locals, the scalar and the owner's local; symmetry re-checked by the harness on each model against all N! permutations) checked by DFS with and without symmetry reduction x threads x block sizes: always/sometimes verdicts equal each other and a reference reachability; unique(sym) <= unique(plain); the reduced run evaluates a member of every orbit (orbits by brute-force minimum over all permutations); every visitor and discovery path is a real execution of the original model; simulation with symmetry reports real paths. (b) generated ActorModelStates whose actor states, messages, random choices and history contain ids, with frequent ties: representative() compared field by field with the harness's own application of the stable sorting permutation. (c) plans from from_values_to_sort against the stable argsort; reindex; rewrite of Vec, VecDeque, BTreeSet, BTreeMap, HashableHashSet/Map, Option, tuple, DenseNatMap, Envelope and the three network kinds against a structural map of the permutation. Non-trivial = non-identity permutation or a tie / models with mixed verdicts and >= 4 reachable states; distinct by hash of the case.",
        assumptions: vec!["verdict preservation is only claimed for symmetric models; the generator guarantees symmetry by construction and re-checks it", "ids inside Timer values are not rewritten by the library (Timers::rewrite clones) and are not generated"],
        subs: vec![Box::new(SymmetricModels), Box::new(RepresentativeOfStates), Box::new(PlansAndStructures)],
    }
}
fn fail_unused() -> Result<(), Fail> {
    Ok(())
}
