//! C01 — exhaustive checkers evaluate exactly the reachable in-boundary state space.

use crate::engine::*;
use crate::graph::*;
use crate::runner::*;
use crate::{ensure, fail};
use proptest::prelude::*;
use serde::{Deserialize, Serialize};
use serde_json::json;
use std::collections::{BTreeMap, BTreeSet};
use std::time::Duration;

#[derive(Clone, Debug, Serialize, Deserialize)]
pub struct Case {
    pub g: GraphDesc,
    pub strat: Strat,
    pub threads: usize,
    #[serde(default)]
    pub block: Option<usize>,
}

pub fn exhaustive_strat() -> impl Strategy<Value = Strat> {
    prop_oneof![Just(Strat::Bfs), Just(Strat::Dfs), Just(Strat::OnDemand)]
}
pub fn threads_strategy() -> impl Strategy<Value = usize> {
    prop_oneof![3 => Just(1usize), 2 => Just(2usize), 1 => Just(3usize), 2 => Just(4usize), 1 => Just(8usize)]
}

/// The oracle shared by the small and the large variant.
pub fn check_exhaustive(case: &Case, cov: &mut Cov, dup_inits: bool) -> Result<(), Fail> {
    let g = &case.g;
    let gm = GM::new(g);
    let r = g.reach();
    let cfg = RunCfg::plain(case.strat, case.threads).with_block(case.block);
    let out = run_checker(gm.clone(), &cfg, &PROP_NAMES, None, true, Duration::from_secs(120));
    if out.gave_up {
        fail!("inconclusive/workers-did-not-finish", "workers still running after 120 s: {:?}", cfg);
    }
    cov.eval();
    ensure!(!out.worker_panicked, "c01/worker-panicked", "a worker thread panicked");
    // visited multiset
    let mut seen: BTreeMap<u32, u32> = BTreeMap::new();
    let mut threads_seen = BTreeSet::new();
    for v in &out.visits {
        let last = v.path.last().map(|(s, _)| s.0);
        let Some(last) = last else { fail!("c01/visitor-empty-path", "visitor was shown an empty path") };
        *seen.entry(last).or_insert(0) += 1;
        threads_seen.insert(v.thread.clone());
        // a real path ending in that state
        if let Err(f) = validate_steps(&gm, &v.path) {
            fail!(format!("c01/visitor-{}", f.sig), "state {}: {}", last, f.detail);
        }
    }
    let seen_set: BTreeSet<u32> = seen.keys().copied().collect();
    let missing: Vec<u32> = r.set.difference(&seen_set).copied().collect();
    let extra: Vec<u32> = seen_set.difference(&r.set).copied().collect();
    ensure!(missing.is_empty(), "c01/reachable-state-not-evaluated", "states {:?} are reachable in-boundary but were never shown to the visitor ({} {:?} threads={})", missing, g.shape, case.strat, case.threads);
    ensure!(extra.is_empty(), "c01/unreachable-or-oob-state-evaluated", "states {:?} were evaluated but are not reachable through in-boundary transitions", extra);
    if !dup_inits {
        let twice: Vec<u32> = seen.iter().filter(|(_, c)| **c > 1).map(|(s, _)| *s).collect();
        ensure!(twice.is_empty(), "c01/state-evaluated-twice", "states {:?} were evaluated more than once", twice);
    }
    ensure!(out.unique == r.set.len(), "c01/unique_state_count-wrong", "unique_state_count()={} but {} states are reachable", out.unique, r.set.len());
    ensure!(out.state_count >= out.unique, "c01/state_count-below-unique", "state_count()={} < unique_state_count()={}", out.state_count, out.unique);
    ensure!(out.is_done, "c01/not-done-after-exhaustion", "is_done() is false after all workers returned");
    // classification
    cov.label(case.strat.label());
    cov.label_if(case.threads > 1, "threads>1");
    cov.label_if(case.block.map_or(false, |b| r.set.len() > b), "block_boundary_crossed");
    let shared = threads_seen.len() >= 2;
    cov.label_if(shared, "shared_work");
    let feats = g.features();
    for f in &feats {
        cov.label(f);
    }
    let interesting = feats.iter().any(|f| ["join", "cycle", "self_loop", "oob_successor", "ignored_action", "multi_init"].contains(f));
    if r.set.len() >= 3 && interesting {
        cov.nontrivial(&(g, case.strat, case.threads));
        if cov.wants_sample() {
            cov.sample(json!({"graph": g, "strategy": case.strat.label(), "threads": case.threads, "reachable": r.set.len(), "evaluated": out.visits.len(), "features": feats}));
        }
    }
    Ok(())
}

pub struct Small;
impl SubCheck for Small {
    type Case = Case;
    fn name(&self) -> &'static str {
        "small_graphs"
    }
    fn cases(&self, tier: Tier) -> u32 {
        tier.pick(3000, 60000)
    }
    fn strategy(&self, tier: Tier) -> BoxedStrategy<Case> {
        let mut p = GraphParams::small();
        p.force_true_always = true;
        p.max_props = 3;
        p.min_props = 0;
        p.max_n = tier.pick(28, 60);
        p.max_deg = 4;
        (graph_strategy(p), exhaustive_strat(), threads_strategy(), block_strategy())
            .prop_map(|(g, strat, threads, block)| Case { g, strat, threads, block })
            .boxed()
    }
    fn check(&self, case: &Case, cov: &mut Cov) -> Result<(), Fail> {
        check_exhaustive(case, cov, false)
    }
    fn mandatory(&self) -> Vec<&'static str> {
        vec!["bfs", "dfs", "on_demand", "threads>1", "join", "cycle", "oob_successor", "ignored_action", "multi_init", "shared_work", "block_boundary_crossed"]
    }
}

/// Duplicate initial states: only the set claims of the statement apply.
pub struct DupInits;
impl SubCheck for DupInits {
    type Case = Case;
    fn name(&self) -> &'static str {
        "duplicate_initial_states"
    }
    fn cases(&self, tier: Tier) -> u32 {
        tier.pick(400, 6000)
    }
    fn strategy(&self, _tier: Tier) -> BoxedStrategy<Case> {
        let mut p = GraphParams::small();
        p.force_true_always = true;
        p.max_props = 2;
        p.min_props = 0;
        p.dup_inits = true;
        p.max_inits = 4;
        p.max_n = 10;
        (graph_strategy(p), exhaustive_strat(), threads_strategy(), block_strategy())
            .prop_map(|(g, strat, threads, block)| Case { g, strat, threads, block })
            .boxed()
    }
    fn check(&self, case: &Case, cov: &mut Cov) -> Result<(), Fail> {
        let d: BTreeSet<u32> = case.g.inits.iter().copied().collect();
        cov.label_if(d.len() < case.g.inits.len(), "has_duplicate_init");
        check_exhaustive(case, cov, true)
    }
    fn mandatory(&self) -> Vec<&'static str> {
        vec!["has_duplicate_init"]
    }
}

#[derive(Clone, Debug, Serialize, Deserialize)]
pub struct BigCase {
    pub seed: u64,
    pub n: u32,
    pub deg: u32,
    pub strat: Strat,
    pub threads: usize,
}

/// Graphs larger than the 1500-state work block, so that several workers really share work.
pub struct Big;
impl SubCheck for Big {
    type Case = BigCase;
    fn name(&self) -> &'static str {
        "large_graphs_work_sharing"
    }
    fn cases(&self, tier: Tier) -> u32 {
        tier.pick(32, 400)
    }
    fn strategy(&self, tier: Tier) -> BoxedStrategy<BigCase> {
        let max_n = tier.pick(9000u32, 60000u32);
        (any::<u64>(), 1600u32..max_n, 0u32..3, exhaustive_strat(), prop_oneof![Just(1usize), Just(2usize), Just(4usize), Just(8usize), Just(16usize)])
            // (a DFS visitor rebuilds each path by re-executing the model from the initial state, and DFS
            // paths in these graphs are thousands of states long: cost grows with n^2)
            .prop_map(|(seed, n, deg, strat, threads)| BigCase { seed, n: if strat == Strat::Dfs { n.min(20000) } else { n }, deg, strat, threads })
            .boxed()
    }
    fn check(&self, c: &BigCase, cov: &mut Cov) -> Result<(), Fail> {
        let all: BTreeSet<u32> = (0..c.n).collect();
        let g = big_graph(c.seed, c.n, c.deg, vec![PropDesc { exp: Exp::Always, on: all }]);
        let case = Case { g, strat: c.strat, threads: c.threads, block: None };
        let mut inner = Cov::new(0);
        check_exhaustive(&case, &mut inner, false)?;
        cov.eval();
        cov.label(c.strat.label());
        if inner.labels.contains_key("shared_work") {
            cov.label("shared_work");
        }
        // every case here crosses the default 1500-state block boundary
        cov.nontrivial(&(c.seed, c.n, c.deg, c.strat, c.threads));
        if cov.wants_sample() {
            cov.sample(json!({"big_graph_seed": c.seed, "n": c.n, "extra_degree": c.deg, "strategy": c.strat.label(), "threads": c.threads, "shared_work": inner.labels.contains_key("shared_work")}));
        }
        Ok(())
    }
    fn mandatory(&self) -> Vec<&'static str> {
        vec!["shared_work"]
    }
    fn workers(&self) -> usize {
        4
    }
    fn max_shrink_iters(&self) -> u32 {
        60
    }
}

pub fn spec() -> PropSpec {
    PropSpec {
        id: "C01",
        level: "exploration",
        rule: "Cases = (generated finite transition graph with joins/cycles/self-loops/ignored actions/boundary/several initial states, strategy in {bfs,dfs,on-demand run to completion}, threads in {1,2,3,4,8,16}); each runs the real checker with a recording visitor and compares the evaluated multiset, every visitor path, unique_state_count, state_count and is_done with an independent reachability computation. Non-trivial = at least 3 reachable states and one of {join, cycle, self-loop, out-of-boundary successor, ignored action, >=2 initial states} (small graphs), or >=2 worker threads evaluated states (large graphs); distinct by hash of (graph, strategy, threads).",
        assumptions: vec![
            "64-bit fingerprint collisions do not occur at these sizes (a collision would be reported as a missing state and be visible in the replay)",
            "the model is a pure function of its description (generated that way)",
        ],
        subs: vec![Box::new(Small), Box::new(DupInits), Box::new(Big)],
    }
}
