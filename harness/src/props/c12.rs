//! C12 — run controls are honoured: finish conditions, targets, depth, timeout, seed.

use crate::engine::*;
use crate::graph::*;
use crate::props::c02::GCase;
use crate::props::c03::{any_cfg, finish_strategy};
use crate::runner::*;
use crate::{ensure, fail};
use proptest::prelude::*;
use serde::{Deserialize, Serialize};
use serde_json::json;
use stateright::{Checker, Chooser, HasDiscoveries, Model, Path};
use std::collections::BTreeSet;
use std::sync::{Arc, Mutex};
use std::time::Duration;

// ---------------------------------------------------------------------------------------------
// (a) HasDiscoveries::matches means what its name says
// ---------------------------------------------------------------------------------------------

#[derive(Clone, Debug, Serialize, Deserialize)]
pub struct MatchCase {
    pub exps: Vec<Exp>,
    pub discovered: Vec<bool>,
    pub finish: Finish,
}

pub fn finish_literal(f: &Finish, exps: &[Exp], discovered: &BTreeSet<String>) -> bool {
    let names: Vec<String> = (0..exps.len()).map(|k| PROP_NAMES[k].to_string()).collect();
    let failure = |e: &Exp| matches!(e, Exp::Always | Exp::Eventually);
    match f {
        Finish::All => names.iter().all(|n| discovered.contains(n)),
        Finish::Any => !discovered.is_empty(),
        Finish::AnyFailures => exps.iter().zip(&names).any(|(e, n)| failure(e) && discovered.contains(n)),
        Finish::AllFailures => exps.iter().zip(&names).all(|(e, n)| !failure(e) || discovered.contains(n)),
        Finish::AllOf(v) => v.iter().filter(|n| names.contains(n)).all(|n| discovered.contains(n)),
        Finish::AnyOf(v) => v.iter().filter(|n| names.contains(n)).any(|n| discovered.contains(n)),
    }
}

pub struct Matches;
impl SubCheck for Matches {
    fn fuzzable(&self) -> bool {
        true
    }
    type Case = MatchCase;
    fn name(&self) -> &'static str {
        "has_discoveries_matches"
    }
    fn cases(&self, tier: Tier) -> u32 {
        tier.pick(30000, 600000)
    }
    fn strategy(&self, _tier: Tier) -> BoxedStrategy<MatchCase> {
        let exp = prop_oneof![Just(Exp::Always), Just(Exp::Sometimes), Just(Exp::Eventually)];
        (proptest::collection::vec((exp, any::<bool>()), 0..=6), finish_strategy(6))
            .prop_map(|(v, f)| MatchCase {
                exps: v.iter().map(|x| x.0).collect(),
                discovered: v.iter().map(|x| x.1).collect(),
                finish: f.unwrap_or(Finish::All),
            })
            .boxed()
    }
    fn check(&self, c: &MatchCase, cov: &mut Cov) -> Result<(), Fail> {
        let g = GraphDesc {
            n: 1,
            inits: vec![0],
            edges: vec![vec![]],
            oob: BTreeSet::new(),
            props: c.exps.iter().map(|e| PropDesc { exp: *e, on: BTreeSet::new() }).collect(),
            panic_at: None,
            shape: String::new(),
            yield_in_model: false,
            slow_us: 0,
        };
        let gm = GM::new(&g);
        let props = gm.properties();
        let disc_static: BTreeSet<&'static str> = (0..c.exps.len()).filter(|k| c.discovered[*k]).map(|k| PROP_NAMES[k]).collect();
        let disc: BTreeSet<String> = disc_static.iter().map(|s| s.to_string()).collect();
        let real: HasDiscoveries = c.finish.to_real(&PROP_NAMES[..c.exps.len()]);
        let got = real.matches(&disc_static, &props);
        let want = finish_literal(&c.finish, &c.exps, &disc);
        cov.eval();
        ensure!(got == want, format!("c12/matches/{}", variant_name(&c.finish)), "{:?}.matches(discovered={:?}, properties={:?}) = {}, its name says {}", c.finish, disc, c.exps, got, want);
        cov.label(variant_name(&c.finish));
        cov.label_if(want, "matches_true");
        cov.label_if(!want, "matches_false");
        if !c.exps.is_empty() && !disc.is_empty() && disc.len() < c.exps.len() {
            cov.nontrivial(&(format!("{:?}", c.exps), &c.discovered, format!("{:?}", c.finish)));
            if cov.wants_sample() {
                cov.sample(json!({"expectations": c.exps, "discovered": disc, "finish_when": c.finish, "matches": got}));
            }
        }
        Ok(())
    }
    fn mandatory(&self) -> Vec<&'static str> {
        vec!["All", "Any", "AnyFailures", "AllFailures", "AllOf", "AnyOf", "matches_true", "matches_false"]
    }
}
pub fn variant_name(f: &Finish) -> &'static str {
    match f {
        Finish::All => "All",
        Finish::Any => "Any",
        Finish::AnyFailures => "AnyFailures",
        Finish::AllFailures => "AllFailures",
        Finish::AllOf(_) => "AllOf",
        Finish::AnyOf(_) => "AnyOf",
    }
}

// ---------------------------------------------------------------------------------------------
// (b) a check stops early only for a configured reason; target_state_count is a lower bound
// ---------------------------------------------------------------------------------------------

pub struct EarlyStop;
impl SubCheck for EarlyStop {
    type Case = GCase;
    fn name(&self) -> &'static str {
        "early_stop_reasons"
    }
    fn cases(&self, tier: Tier) -> u32 {
        tier.pick(3000, 80000)
    }
    fn strategy(&self, tier: Tier) -> BoxedStrategy<GCase> {
        let mut p = GraphParams::small();
        p.max_props = 5;
        p.min_props = 1;
        p.max_n = tier.pick(30, 60);
        p.max_deg = 4;
        (graph_strategy(p), any_cfg(5), proptest::option::weighted(0.5, 1usize..40))
            .prop_map(|(g, mut cfg, target)| {
                if cfg.strat.exhaustive() {
                    cfg.target_state_count = target;
                }
                GCase { g, cfg }
            })
            .boxed()
    }
    fn check(&self, case: &GCase, cov: &mut Cov) -> Result<(), Fail> {
        let g = &case.g;
        let gm = GM::new(g);
        let r = g.reach();
        let out = run_checker(gm, &case.cfg, &PROP_NAMES, None, true, Duration::from_secs(120));
        if out.gave_up {
            fail!("inconclusive/workers-did-not-finish", "{:?}", case.cfg);
        }
        cov.eval();
        let disc: BTreeSet<String> = match &out.discoveries {
            Ok(d) => d.keys().map(|s| s.to_string()).collect(),
            Err(_) => return Ok(()), // path reconstruction problems are C03's; nothing to judge here
        };
        let visited: BTreeSet<u32> = out.visits.iter().map(|v| v.path.last().unwrap().0 .0).collect();
        let exps: Vec<Exp> = g.props.iter().map(|p| p.exp).collect();
        let finish = case.cfg.finish.clone().unwrap_or(Finish::All);
        let finish_holds = finish_literal(&finish, &exps, &disc);
        let all_discovered = disc.len() == g.props.len();
        let target_reached = case.cfg.target_state_count.map_or(false, |t| out.state_count >= t);
        let exhausted = r.set.is_subset(&visited);
        let sim = !case.cfg.strat.exhaustive();
        if sim {
            ensure!(finish_holds || target_reached, "c12/simulation-stopped-without-reason", "simulation returned although neither the finish condition {:?} holds for {:?} nor target_state_count {:?} was reached (state_count={})", finish, disc, case.cfg.target_state_count, out.state_count);
        } else if !exhausted {
            ensure!(finish_holds || all_discovered || target_reached, format!("c12/stopped-early-without-reason/{}", case.cfg.strat.label()), "{:?}: evaluated {} of {} reachable states, but the finish condition {:?} does not hold for {:?}, not every property has a discovery, and state_count={} is below the target {:?}", case.cfg, visited.len(), r.set.len(), finish, disc, out.state_count, case.cfg.target_state_count);
        }
        cov.label(case.cfg.strat.label());
        cov.label(&format!("finish/{}", variant_name(&finish)));
        let early = !sim && !exhausted;
        cov.label_if(early && finish_holds && !all_discovered, "stopped_by_finish_condition");
        cov.label_if(early && target_reached && !finish_holds && !all_discovered, "stopped_by_target_only");
        cov.label_if(!sim && exhausted && !finish_holds, "exhausted_without_match");
        cov.label_if(sim && target_reached && !finish_holds, "simulation_stopped_by_target");
        cov.label_if(sim && finish_holds, "simulation_stopped_by_finish");
        if early || sim {
            cov.nontrivial(&(g, &case.cfg));
            if cov.wants_sample() {
                cov.sample(json!({"graph": g, "cfg": case.cfg, "evaluated": visited.len(), "reachable": r.set.len(), "discovered": disc, "state_count": out.state_count}));
            }
        }
        Ok(())
    }
    fn mandatory(&self) -> Vec<&'static str> {
        vec!["stopped_by_finish_condition", "stopped_by_target_only", "exhausted_without_match", "simulation_stopped_by_target", "simulation_stopped_by_finish", "bfs", "dfs", "on_demand"]
    }
}

/// (b') the same question with the harness owning the schedule (C05's cooperative scheduler):
/// two workers can be made to discover the same property at the same moment, to finish a block
/// while the other is between "has this property a discovery?" and recording one, etc.
pub struct EarlyStopScheduled;
impl SubCheck for EarlyStopScheduled {
    type Case = crate::props::c05::SchedCase;
    fn name(&self) -> &'static str {
        "early_stop_reasons_under_owned_schedules"
    }
    fn cases(&self, tier: Tier) -> u32 {
        tier.pick(2500, 50000)
    }
    fn max_shrink_iters(&self) -> u32 {
        600
    }
    fn strategy(&self, _tier: Tier) -> BoxedStrategy<Self::Case> {
        use crate::props::c05::{SchedCase, Stop};
        let mut p = GraphParams::small();
        p.max_n = 14;
        p.max_deg = 3;
        p.max_props = 3;
        p.min_props = 2;
        p.oob_rate = 10;
        p.exps = vec![Exp::Always, Exp::Sometimes];
        p.shapes = vec![(3, Shape::Dag(2)), (2, Shape::Dag(3)), (2, Shape::Uniform), (1, Shape::Forest)];
        p.max_inits = 2;
        (graph_strategy(p), prop_oneof![Just(Strat::Bfs), Just(Strat::Dfs)], 2usize..=3, 1usize..=2, finish_strategy(3), proptest::collection::vec(any::<u8>(), 20..200))
            .prop_map(|(g, strat, threads, block, finish, schedule)| SchedCase { g, strat, threads, block, stop: finish.map_or(Stop::Exhaust, Stop::FinishWhen), schedule, yield_in_model: true, real_threads: false })
            .boxed()
    }
    fn check(&self, c: &Self::Case, cov: &mut Cov) -> Result<(), Fail> {
        use crate::props::c05::{run_scheduled, Joined, Stop, JOIN_WAIT_S};
        let out = run_scheduled(c, Duration::from_secs(JOIN_WAIT_S));
        cov.eval();
        if out.stuck {
            fail!("inconclusive/scheduler-watchdog", "a controlled thread did not reach a scheduling point within the watchdog");
        }
        if let Some(d) = &out.deadlock {
            fail!("c12/scheduled/worker-sleeps-forever", "logical deadlock: {}", d);
        }
        if !matches!(out.joined, Joined::Returned) {
            fail!("c12/scheduled/join-did-not-return-normally", "{} threads={} block={} stop={:?}", c.strat.label(), c.threads, c.block, c.stop);
        }
        let g = &c.g;
        let r = g.reach();
        let disc: BTreeSet<String> = match &out.discovered {
            Ok(d) => d.iter().map(|s| s.to_string()).collect(),
            Err(_) => return Ok(()),
        };
        let visited: BTreeSet<u32> = out.visits.iter().map(|v| v.path.last().unwrap().0 .0).collect();
        let exps: Vec<Exp> = g.props.iter().map(|p| p.exp).collect();
        let finish = match &c.stop {
            Stop::FinishWhen(f) => f.clone(),
            _ => Finish::All,
        };
        let finish_holds = finish_literal(&finish, &exps, &disc);
        let all_discovered = disc.len() == g.props.len();
        let exhausted = r.set.is_subset(&visited);
        if !exhausted {
            ensure!(finish_holds || all_discovered, format!("c12/scheduled/stopped-early-without-reason/{}", c.strat.label()), "{} with {} workers, block {}: evaluated {} of {} reachable states, but the finish condition {:?} does not hold for the discoveries {:?} and not every property has one", c.strat.label(), c.threads, c.block, visited.len(), r.set.len(), finish, disc);
        }
        let workers: BTreeSet<&str> = out.visits.iter().map(|v| v.thread.as_str()).collect();
        cov.label(c.strat.label());
        cov.label(&format!("finish/{}", variant_name(&finish)));
        cov.label_if(workers.len() >= 2, "two_workers_did_work");
        cov.label_if(!exhausted && finish_holds && !all_discovered, "stopped_by_finish_condition");
        cov.label_if(exhausted && !finish_holds, "exhausted_without_match");
        // the same property witnessed by two states that different workers evaluated
        let witnessed_twice = g.props.iter().any(|p| {
            let ws: BTreeSet<&str> = out.visits.iter().filter(|v| {
                let s = v.path.last().unwrap().0 .0;
                (p.exp == Exp::Sometimes) == p.on.contains(&s)
            }).map(|v| v.thread.as_str()).collect();
            ws.len() >= 2
        });
        cov.label_if(witnessed_twice, "one_property_witnessed_by_two_workers");
        if workers.len() >= 2 {
            cov.nontrivial(c);
            if cov.wants_sample() {
                cov.sample(json!({"graph": g, "strategy": c.strat.label(), "threads": c.threads, "block": c.block, "finish_when": finish, "evaluated": visited.len(), "reachable": r.set.len(), "discovered": disc}));
            }
        }
        Ok(())
    }
    fn mandatory(&self) -> Vec<&'static str> {
        vec!["bfs", "dfs", "two_workers_did_work", "stopped_by_finish_condition", "exhausted_without_match", "one_property_witnessed_by_two_workers", "finish/All"]
    }
}

// ---------------------------------------------------------------------------------------------
// (c) target_max_depth
// ---------------------------------------------------------------------------------------------

pub struct Depth;
impl SubCheck for Depth {
    type Case = GCase;
    fn name(&self) -> &'static str {
        "target_max_depth"
    }
    fn cases(&self, tier: Tier) -> u32 {
        tier.pick(3000, 80000)
    }
    fn strategy(&self, tier: Tier) -> BoxedStrategy<GCase> {
        let mut p = GraphParams::small();
        p.max_props = 2;
        p.min_props = 0;
        p.force_true_always = true;
        p.max_n = tier.pick(30, 60);
        p.shapes = vec![(2, Shape::Uniform), (3, Shape::Dag(2)), (2, Shape::Comb), (2, Shape::Dag(1)), (1, Shape::Forest)];
        (graph_strategy(p), any_cfg(3), 1usize..7)
            .prop_map(|(g, mut cfg, d)| {
                cfg.target_max_depth = Some(d);
                cfg.finish = None;
                GCase { g, cfg }
            })
            .boxed()
    }
    fn check(&self, case: &GCase, cov: &mut Cov) -> Result<(), Fail> {
        let g = &case.g;
        let gm = GM::new(g);
        let r = g.reach();
        let limit = case.cfg.target_max_depth.unwrap();
        let out = run_checker(gm, &case.cfg, &PROP_NAMES, None, true, Duration::from_secs(120));
        if out.gave_up {
            fail!("inconclusive/workers-did-not-finish", "{:?}", case.cfg);
        }
        cov.eval();
        for v in &out.visits {
            ensure!(v.path.len() <= limit, format!("c12/depth-exceeded/{}", case.cfg.strat.label()), "target_max_depth={} but state {} was evaluated at the end of a path with {} states ({:?})", limit, v.path.last().unwrap().0 .0, v.path.len(), case.cfg);
        }
        let visited: BTreeSet<u32> = out.visits.iter().map(|v| v.path.last().unwrap().0 .0).collect();
        let deeper_exists = r.set.iter().any(|s| r.dist[*s as usize].unwrap() as usize + 1 >= limit);
        if case.cfg.strat == Strat::Bfs && case.cfg.threads == 1 {
            let missing: Vec<u32> = r.set.iter().copied().filter(|s| (r.dist[*s as usize].unwrap() as usize + 1) < limit && !visited.contains(s)).collect();
            ensure!(missing.is_empty(), "c12/bfs-skipped-state-nearer-than-depth-limit", "single-threaded BFS with target_max_depth={} did not evaluate states {:?}, which are nearer than the limit", limit, missing);
            cov.label_if(deeper_exists, "bfs1_binding_depth");
        }
        cov.label(case.cfg.strat.label());
        if deeper_exists {
            cov.label("binding_depth");
            cov.nontrivial(&(g, &case.cfg));
            if cov.wants_sample() {
                cov.sample(json!({"graph": g, "cfg": case.cfg, "evaluated": visited, "max_depth_reported": out.max_depth}));
            }
        }
        Ok(())
    }
    fn mandatory(&self) -> Vec<&'static str> {
        vec!["binding_depth", "bfs1_binding_depth", "bfs", "dfs", "on_demand", "simulation"]
    }
}

// ---------------------------------------------------------------------------------------------
// (e) seed: a single-threaded simulation replays the same first trace
// ---------------------------------------------------------------------------------------------

#[derive(Clone)]
pub struct RecChooser {
    pub seeds: Arc<Mutex<Vec<u64>>>,
}
impl Chooser<GM> for RecChooser {
    type State = u64;
    fn new_state(&self, seed: u64) -> u64 {
        self.seeds.lock().unwrap().push(seed);
        seed.wrapping_mul(0x9E37_79B9_7F4A_7C15) | 1
    }
    fn choose_initial_state(&self, st: &mut u64, initial_states: &[S]) -> usize {
        step(st) as usize % initial_states.len()
    }
    fn choose_action(&self, st: &mut u64, _current: &S, actions: &[u16]) -> usize {
        step(st) as usize % actions.len()
    }
}
fn step(x: &mut u64) -> u64 {
    *x ^= *x << 13;
    *x ^= *x >> 7;
    *x ^= *x << 17;
    *x >> 11
}

#[derive(Clone, Debug, Serialize, Deserialize)]
pub struct SeedCase {
    pub g: GraphDesc,
    pub seed: u64,
    pub uniform: bool,
    pub target: usize,
}

fn first_trace(visits: &[Visit<GM>]) -> Vec<Vec<u32>> {
    let mut out = vec![];
    for (i, v) in visits.iter().enumerate() {
        if i > 0 && v.path.len() == 1 {
            break;
        }
        out.push(v.path.iter().map(|(s, _)| s.0).collect());
    }
    out
}

fn run_sim(g: &GraphDesc, seed: u64, uniform: bool, target: usize) -> (Vec<Visit<GM>>, Vec<u64>) {
    let gm = GM::new(g);
    let visits: Arc<Mutex<Vec<Visit<GM>>>> = Arc::new(Mutex::new(vec![]));
    let v2 = Arc::clone(&visits);
    let b = gm.checker().threads(1).target_state_count(target).visitor(move |p: Path<S, u16>| {
        v2.lock().unwrap().push(Visit { path: p.into_vec(), thread: String::new() });
    });
    let seeds = Arc::new(Mutex::new(vec![]));
    if uniform {
        let c = b.spawn_simulation(seed, stateright::UniformChooser);
        let _ = catch_quiet(|| c.join());
    } else {
        let c = b.spawn_simulation(seed, RecChooser { seeds: Arc::clone(&seeds) });
        let _ = catch_quiet(|| c.join());
    }
    let v = std::mem::take(&mut *visits.lock().unwrap());
    let s = seeds.lock().unwrap().clone();
    (v, s)
}

pub struct SeedReplay;
impl SubCheck for SeedReplay {
    type Case = SeedCase;
    fn name(&self) -> &'static str {
        "simulation_seed_replay"
    }
    fn cases(&self, tier: Tier) -> u32 {
        tier.pick(2000, 40000)
    }
    fn strategy(&self, _tier: Tier) -> BoxedStrategy<SeedCase> {
        let mut p = GraphParams::small();
        p.max_props = 2;
        p.min_props = 0;
        p.force_true_always = true;
        p.oob_rate = 0;
        p.max_n = 30;
        p.max_deg = 4;
        (graph_strategy(p), any::<u64>(), any::<bool>(), 20usize..120)
            .prop_map(|(g, seed, uniform, target)| SeedCase { g, seed, uniform, target })
            .boxed()
    }
    fn check(&self, c: &SeedCase, cov: &mut Cov) -> Result<(), Fail> {
        let (v1, s1) = run_sim(&c.g, c.seed, c.uniform, c.target);
        let (v2, _s2) = run_sim(&c.g, c.seed, c.uniform, c.target);
        cov.eval();
        let t1 = first_trace(&v1);
        let t2 = first_trace(&v2);
        ensure!(t1 == t2, "c12/seed/first-trace-differs", "two single-threaded simulations with seed {} ({}) produced different first traces: {:?} vs {:?}", c.seed, if c.uniform { "UniformChooser" } else { "harness chooser" }, t1, t2);
        if !c.uniform {
            ensure!(s1.first() == Some(&c.seed), "c12/seed/first-trace-not-given-user-seed", "the chooser's first new_state call received {:?}, the user's seed is {}", s1.first(), c.seed);
        }
        cov.label(if c.uniform { "uniform_chooser" } else { "recording_chooser" });
        let len = t1.last().map_or(0, |p| p.len());
        if len >= 3 {
            cov.label("trace_len>=3");
            cov.nontrivial(&(&c.g, c.seed, c.uniform));
            if cov.wants_sample() {
                cov.sample(json!({"graph": c.g, "seed": c.seed, "uniform": c.uniform, "first_trace": t1.last()}));
            }
        }
        Ok(())
    }
    fn mandatory(&self) -> Vec<&'static str> {
        vec!["uniform_chooser", "recording_chooser", "trace_len>=3"]
    }
}

pub fn spec() -> PropSpec {
    PropSpec {
        id: "C12",
        level: "exploration",
        rule: "Five generated families. (a) HasDiscoveries::matches on generated (property expectations, discovered subset, variant) against the literal reading of the variant name. (b) generated graph x strategy x threads x finish_when x target_state_count: if fewer states were evaluated than are reachable, then the finish condition holds for the final discoveries, or every property has a discovery, or state_count >= target (simulation: one of the configured reasons holds after join). (c) target_max_depth 1..6: no visitor path has more states than the limit; single-threaded BFS evaluates every state nearer than the limit. (d) timeouts in child processes: bounded stop on an unbounded model, no effect while unexpired. (e) single-threaded simulation run twice with one seed: identical first trace; recording chooser sees the user's seed first. Non-trivial = the control actually binds (stopped before exhaustion / a state at or beyond the depth limit exists / trace of >= 3 states / partial discovery set); distinct by hash of the case.",
        assumptions: vec!["timing oracles only in the direction OS noise cannot produce (policy in DESIGN.md 2.5)"],
        subs: vec![Box::new(Matches), Box::new(EarlyStop), Box::new(EarlyStopScheduled), Box::new(Depth), Box::new(SeedReplay), Box::new(crate::props::c12d::Timeouts), Box::new(crate::props::c12d::IdleWorkersAtExpiry)],
    }
}
