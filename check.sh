#!/bin/bash
# usage: check.sh <ID> quick|thorough            run the check for one property
#        check.sh <ID> replay <file>             re-run the oracle on a saved case (no generator)
# Rebuilds the harness against /repo's current working tree (path dependency) with the hook
# guard on, then runs it. Exit 0 = held, 1 = VIOLATION line printed, 2 = inconclusive/build error.
set -u
export CARGO_NET_OFFLINE=true
VERIF_DIR="$(cd "$(dirname "$0")" && pwd)"
export VERIF_DIR
cd "$VERIF_DIR/harness" || exit 2
export RUSTFLAGS="--cfg getong_stateright_verif"
export CARGO_TARGET_DIR="$VERIF_DIR/target"
mkdir -p "$VERIF_DIR/target"
if ! cargo build --release --quiet 2>"$VERIF_DIR/target/build-$$.log"; then
    echo "check.sh: harness build failed (see below); no verdict" >&2
    tail -40 "$VERIF_DIR/target/build-$$.log" >&2
    rm -f "$VERIF_DIR/target/build-$$.log"
    exit 2
fi
rm -f "$VERIF_DIR/target/build-$$.log"
if [ "${2:-}" = "thorough" ] && [ -z "${VERIF_NO_FUZZ:-}" ]; then
    # coverage-guided tier: one libFuzzer target for all fuzzable sub-checks (harness/src/fuzz.rs),
    # built with the nightly toolchain against /repo's working tree and a patched copy of proptest.
    # If it cannot be built the thorough tier runs without it and says so in the evidence.
    ( flock 9
      RUSTFLAGS="--cfg getong_stateright_verif --cfg srv_patched_proptest" \
        cargo +nightly fuzz build --fuzz-dir "$VERIF_DIR/fuzz" --target-dir "$VERIF_DIR/target" -s none sub \
        >"$VERIF_DIR/target/fuzz-build.log" 2>&1 || { echo "check.sh: fuzz target not built (see target/fuzz-build.log); thorough tier continues without it" >&2; rm -f "$VERIF_DIR/target/x86_64-unknown-linux-gnu/release/sub"; }
    ) 9>"$VERIF_DIR/target/.fuzz-build.lock"
fi
cd "$VERIF_DIR" || exit 2
exec "$VERIF_DIR/target/release/srv" "$@"
