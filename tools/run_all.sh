#!/bin/bash
# runs every registered check (quick unless TIER=thorough) on the current tree; prints one line per check
cd "$(dirname "$0")/.."
for id in $(python3 -c "import json; print(' '.join(c['property_id'] for c in json.load(open('MANIFEST.json'))['checks']))"); do
  t0=$(date +%s.%N)
  out=$(VERIF_SEED=${VERIF_SEED:-0} timeout ${TIMEOUT:-1800} ./check.sh $id ${TIER:-quick} 2>&1); code=$?
  t1=$(date +%s.%N)
  printf "%s exit=%s %.1fs %s\n" $id $code $(echo "$t1 - $t0" | bc) "$(echo "$out" | grep -E '^sig:|INCONCLUSIVE|^VIOLATION' | head -2 | tr '\n' ' ' | cut -c1-200)"
done
