#!/usr/bin/env python3
"""usage: mk_mutant_task.py <PROPERTY_ID> <VARIANT> <focus text>
Creates a scratch worktree /tmp/mut-<ID>-<V> of /repo HEAD with TASK.md for a fresh sub-agent.
The task text contains only the property's text (no material from /verif's checks)."""
import json, sys, subprocess, os
pid, var, focus = sys.argv[1], sys.argv[2], sys.argv[3]
prop = None
for l in open('/verif/properties.jsonl'):
    p = json.loads(l)
    if p['id'] == pid: prop = p
d = f"/tmp/mut-{pid}-{var}"
subprocess.check_call(["git", "-C", "/repo", "worktree", "add", "-q", "--detach", d, "HEAD"])
os.makedirs(d + "/OUT", exist_ok=True)
task = f"""# Task: seed a subtle property-breaking change into the `stateright` crate

You work ONLY inside the scratch git worktree `{d}` (a checkout of the Rust crate `stateright`,
an explicit-state model checker for actor systems). Do not read or touch `/repo` or `/verif`.
No network: always use `CARGO_NET_OFFLINE=true CARGO_TARGET_DIR={d}/target cargo ... --offline`.

## The property

**{prop['title']}**

{prop['statement']}

Quantified over: {prop['quantifier']['text']}

## What to produce

A change to the library sources under `src/` that **breaks this property** while

1. the crate still compiles without new warnings-as-errors, and
2. the existing suite still gives the same result as on the pristine tree:
   `cargo test --offline --lib` -> **84 passed, 3 failed** (the three failing tests
   `checker::explorer::test::can_next`, `checker::explorer::test::smoke_test_states`,
   `checker::test_report::report_includes_property_names_and_paths` fail on the pristine tree too;
   nothing else may start failing, and those may stay failing), and
3. the change looks like something a maintainer could plausibly commit (an "optimisation", a
   refactoring, a simplification, a wrong boundary, a forgotten case) - small, no dead giveaway
   comments, and
4. it needs something **specific** to manifest - a particular interleaving, a fault at a
   particular point, a multi-step sequence of operations, an unusual input or configuration, or
   two cooperating sites that each look fine alone. A change that ordinary use of the library
   would expose at once is not wanted.

Preferred area for this one (so that different seeded changes do not all hit the same lines):
{focus}

Ignore everything guarded by `cfg(getong_stateright_verif)` (e.g. `src/verif_hooks.rs`): those are
instrumentation hooks that are not compiled in a normal build; do not modify or rely on them.

Also write a **demonstration**: one integration-test file `tests/demo.rs` (using only the crate's
public API and std; dev-dependencies already in Cargo.toml may be used) that **passes on the
pristine tree** and **fails with your change** (deterministically, or at least 9 times out of 10;
if it needs threads/timing say so). Run it both ways yourself, several times.

## Deliverables (all in `{d}/OUT/`)

* `patch.diff` - `git diff -- src` of your change only (must apply with `git apply` to a clean
  checkout of this worktree's HEAD; do not include tests/demo.rs or target/),
* `demo.rs` - the demonstration file,
* `meta.json` - {{"property": "{pid}", "variant": "{var}", "summary": "<what the change does and why it
  breaks the property>", "needs": "<what exactly is needed for it to manifest>", "files": [...],
  "ran": ["<command> -> <result>", ...]}}.

Before finishing: `git stash` / revert your change, confirm the demo passes and the lib suite is
84/3; re-apply `OUT/patch.diff` with `git apply`, confirm the lib suite is still 84/3 and the demo
fails. Leave the worktree with the patch reverted. Finally delete `{d}/target` to free disk space.
Reply with a 5-line summary only.
"""
open(d + "/TASK.md", "w").write(task)
print(d)
