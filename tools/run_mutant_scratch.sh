#!/bin/bash
# usage: run_mutant_scratch.sh <slot> <seeded-id> <ID> [<ID>...]
# Like run_mutant.sh but leaves /repo alone: the change is applied to a scratch worktree of /repo
# HEAD and a scratch copy of the harness is built against it (one target dir per slot, so several
# slots can run in parallel). Used for mutation sweeps and for harvesting regression seeds
# (SAVE_SEED=1: the shrunk failing case is copied to /verif/replays/seeds/<ID>-<seeded-id>.json).
set -u
SLOT="$1"; MUT="$2"; shift 2
WT=/tmp/rms-wt-$SLOT; H=/tmp/rms-h-$SLOT; V=/tmp/rms-v-$SLOT
export CARGO_NET_OFFLINE=true CARGO_TARGET_DIR=/tmp/rms-target-$SLOT RUSTFLAGS="--cfg getong_stateright_verif"
git -C /repo worktree remove --force $WT 2>/dev/null; rm -rf $WT $H $V
git -C /repo worktree add -q --detach $WT HEAD || exit 3
trap 'git -C /repo worktree remove --force $WT; rm -rf $H $V' EXIT
( cd $WT && git apply /verif/seeded/$MUT/patch.diff ) || { echo "$MUT patch does not apply"; exit 3; }
mkdir -p $H $V/replays $V/evidence
cp -r /verif/harness/src /verif/harness/Cargo.toml /verif/harness/Cargo.lock $H/
sed -i "s|path = \"/repo\"|path = \"$WT\"|" $H/Cargo.toml
mkdir -p $H/.cargo; printf '[net]\noffline = true\n' > $H/.cargo/config.toml
cp /verif/known_findings.jsonl $V/
if ! ( cd $H && cargo build --release --quiet 2>$V/build.log ); then echo "$MUT build failed: $(tail -3 $V/build.log | tr '\n' ' ')"; exit 2; fi
for id in "$@"; do
  out=$(cd $V && VERIF_DIR=$V VERIF_SEED=${VERIF_SEED:-0} timeout 1800 $CARGO_TARGET_DIR/release/srv $id ${TIER:-quick} 2>&1); code=$?
  echo "$MUT $id exit=$code $(echo "$out" | grep -E '^sig:' | head -2 | tr '\n' ' ' | cut -c1-260)"
  if [ -n "${SAVE_SEED:-}" ] && [ "$code" = 1 ]; then
    rp=$(echo "$out" | sed -n 's/^VIOLATION property=[A-Z0-9]* replay=//p' | head -1)
    case "$rp" in
      *timeouts_in_child_processes*|*timeout_*|*udp_runtime_scenarios*|*real_thread_stress*|*explorer*|"") ;;
      *) cp "$rp" "/verif/replays/seeds/$id-$MUT.json"; echo "   seed saved: replays/seeds/$id-$MUT.json" ;;
    esac
  fi
done
