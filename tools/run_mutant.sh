#!/bin/bash
# usage: run_mutant.sh <patch.diff> <ID> [<ID>...]   applies the patch to /repo, runs the quick checks, reverts
set -u
P="$1"; shift
cd /repo || exit 3
if [ -n "$(git status --porcelain -- src Cargo.toml)" ]; then echo "/repo is dirty"; exit 3; fi
git apply "$P" || { echo "patch does not apply"; exit 3; }
trap 'git -C /repo checkout -- . ' EXIT
for id in "$@"; do
  out=$(cd /verif && VERIF_SEED=${VERIF_SEED:-0} timeout 1800 ./check.sh $id ${TIER:-quick} 2>&1); code=$?
  echo "$id exit=$code $(echo "$out" | grep -E '^sig:' | head -2 | tr '\n' ' ' | cut -c1-260)"
done
