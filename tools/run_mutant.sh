#!/bin/bash
# usage: run_mutant.sh <patch.diff> <ID> [<ID>...]   applies the patch to /repo, runs the quick checks, reverts
set -u
P="$1"; shift
cd /repo || exit 3
if [ -n "$(git status --porcelain -- src Cargo.toml)" ]; then echo "/repo is dirty"; exit 3; fi
git apply "$P" || { echo "patch does not apply"; exit 3; }
trap 'git -C /repo checkout -- . ' EXIT
for id in "$@"; do
  out=$(cd /verif && VERIF_SEED=${VERIF_SEED:-0} timeout 1800 ./check.sh $id ${TIER:-quick} 2>&1); code=$?
  echo "$id exit=$code $(echo "$out" | grep -E '^sig:' | head -2 | tr '\n' ' ' | cut -c1-260)"
  # SAVE_SEED=<name>: keep the shrunk failing case as a regression seed (replays/seeds/<ID>-<name>.json)
  if [ -n "${SAVE_SEED:-}" ] && [ "$code" = 1 ]; then
    rp=$(echo "$out" | sed -n 's/^VIOLATION property=[A-Z0-9]* replay=//p' | head -1)
    case "$rp" in
      *timeouts_in_child_processes*|*udp_runtime_scenarios*|*real_thread_stress*|*explorer*|*/seeds/*|"") ;;
      *) mkdir -p /verif/replays/seeds; cp "$rp" "/verif/replays/seeds/$id-$SAVE_SEED.json"; echo "   seed saved: replays/seeds/$id-$SAVE_SEED.json" ;;
    esac
  fi
done
