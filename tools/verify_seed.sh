#!/bin/bash
# usage: verify_seed.sh <dir with patch.diff demo.rs meta.json>
# Confirms in a scratch worktree of /repo HEAD: demo passes without the change, the change applies,
# the lib suite keeps its 84 passes, the demo fails with the change.
set -u
D="$(cd "$1" && pwd)"
WT=/tmp/vs-wt-$$
export CARGO_TARGET_DIR=/tmp/vs-target-${VS_SLOT:-0}
git -C /repo worktree add -q --detach $WT HEAD || exit 3
trap 'git -C /repo worktree remove --force $WT' EXIT
cd $WT
mkdir -p tests; cp "$D/demo.rs" tests/demo.rs
echo "== pristine demo"; timeout 600 cargo test --offline --test demo 2>&1 | grep -E "^test result|error(\[|:)" | head -5
if ! git apply --check "$D/patch.diff" 2>/dev/null; then echo "PATCH DOES NOT APPLY to HEAD"; git apply --3way "$D/patch.diff" 2>&1 | tail -3; else git apply "$D/patch.diff"; fi
git diff --stat -- src | tail -1
echo "== mutant lib"; timeout 900 cargo test --offline --lib 2>&1 | grep -E "^test result|^error(\[|:)" | head -5
echo "== mutant demo"; timeout 600 cargo test --offline --test demo 2>&1 | grep -E "^test result|error(\[|:)" | head -5
