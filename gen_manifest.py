#!/usr/bin/env python3
"""Regenerates MANIFEST.json from the table below (keeps it schema-valid at all times)."""
import json, subprocess

ALL = ["C%02d" % i for i in range(1, 21)]

# id -> (level category, level text, level note, technique, design ref)
CHECKS = {
 "C01": ("exploration",
         "Generated finite models x {bfs,dfs,on-demand} x thread counts; the evaluated multiset, every visitor path and the counters are compared with an independent reachability oracle. Bounded random search: shows agreement on thousands of graphs incl. all shape classes, cannot show absence.",
         "Trusted: the harness's reachability oracle (40 lines), the graph interpreter, proptest. Assumes no 64-bit fingerprint collision at these sizes.",
         "property-based testing (proptest) with a reference-model oracle", "DESIGN.md section 5 / C01"),
 "C02": ("exploration",
         "Generated models with up to 5 properties x exhaustive strategies x threads; discovered always/sometimes names, assert_properties and is_done compared in both directions with witness sets from an independent reachability oracle.",
         "Trusted: reachability oracle, graph interpreter, proptest. Eventually verdicts are taken as reported (C11 decides them).",
         "property-based testing (proptest) with a reference-model oracle", "DESIGN.md section 5 / C02"),
 "C03": ("exploration",
         "Generated models x {bfs,dfs,on-demand,simulation} x threads x all six finish conditions; every path from discoveries() is re-validated step by step against the model and the per-expectation end condition by a validator that shares no code with Path::from_fingerprints.",
         "Trusted: the path validator and graph interpreter. Only results after the workers finished are examined.",
         "property-based testing (proptest) with a validity-predicate oracle", "DESIGN.md section 5 / C03"),
 "C04": ("exploration",
         "Generated pairs of values (same abstract value rebuilt differently, or one near-miss edit apart) for every identity-bearing type; a recording Hasher compares the exact write-call sequences, the harness decides equality on its own abstract representation; plus all reachable states of generated actor systems against fingerprints and the checkers' unique_state_count.",
         "Trusted: the harness's abstract representations and the recording hasher. 64-bit collisions between different call sequences are not counted as defects.",
         "property-based testing (proptest): metamorphic near-miss pairs with a structural-equality oracle", "DESIGN.md section 5 / C04"),
 "C08": ("exploration",
         "Generated concurrent histories (linearizable by construction, mutated, free, ill-formed) over four specifications; is_consistent compared in both directions with a brute-force search over all admissible total orders; returned serializations validated; ill-formed histories must be rejected and stay inconsistent.",
         "Trusted: brute-force oracle (60 lines) and the serialization matcher. Bounded to <= ~9 operations on <= 4 threads.",
         "property-based testing (proptest) with a brute-force reference oracle", "DESIGN.md section 5 / C08"),
 "C10": ("exploration",
         "Generated symmetric models checked by DFS with and without symmetry reduction against a reference reachability and brute-force orbits; representative() of generated actor-system states and every Rewrite/reindex implementation against the harness's own application of the stable sorting permutation.",
         "Trusted: the harness's stable argsort and structural id mapping; symmetry of generated models is re-checked against all permutations.",
         "property-based testing (proptest): metamorphic relation (with/without symmetry) + reference permutation oracle", "DESIGN.md section 5 / C10"),
 "C15": ("exploration",
         "Generated table-driven systems with every actor wrapped in each adapter; the unwrapping projection must be a bisimulation onto the reference interpreter of the unwrapped system (every reachable state and action within a bound); all executions of scripted Vec clients against the script-prefix law.",
         "Trusted: reference interpreter (validated against the unwrapped actors by C06).",
         "property-based testing (proptest): differential/bisimulation check against a reference interpreter", "DESIGN.md section 5 / C15"),
 "C16": ("exploration",
         "Generated systems of link-wrapped scripted actors on lossy/duplicating/reordering networks; every reachable state within a network-size boundary is enumerated and the handed-over sequence of each (sender, receiver) pair is compared with the emitted sequence (prefix, exactly once, completeness when nothing is pending or in flight). One open known finding (overtaking), excluded by signature so the search continues behind it.",
         "Trusted: the prefix/completeness oracle; reads link state through the cfg-guarded accessors (hook H5). Bounded retransmission.",
         "property-based generation of systems + exhaustive bounded state enumeration with an invariant oracle", "DESIGN.md section 5 / C16"),
 "C14": ("exploration",
         "As C08 without real-time precedence for the sequential-consistency tester, plus lin => sc on every history and clone discipline of both testers.",
         "Trusted: brute-force oracle. Bounded history size.",
         "property-based testing (proptest) with a brute-force reference oracle", "DESIGN.md section 5 / C14"),
 "C18": ("exploration",
         "Generated operation sequences on the three reference objects: is_valid_step must agree with invoke (incl. resulting state), is_valid_history with replaying from the initial object. (Register-harness part: see evidence for what is built.)",
         "Trusted: the SequentialSpec::invoke implementations are the reference for is_valid_step (the property states their equivalence).",
         "property-based testing (proptest): differential testing of is_valid_step against invoke", "DESIGN.md section 5 / C18"),
 "C20": ("exploration",
         "Generated clock triples with correlated construction against a componentwise reference order and the lattice laws; dense maps against a Vec model over generated operation sequences, construction orders, defects and rewrite plans.",
         "Trusted: componentwise reference order; Vec model.",
         "property-based testing (proptest): algebraic laws and model-based testing", "DESIGN.md section 5 / C20"),
 "C06": ("exploration",
         "Differential testing of the real ActorModel transition relation against an independent reference interpreter on generated table-driven actor systems: enabled-action multisets, None-ness and every successor component for every reachable (state, action) within a bound.",
         "Trusted: the reference interpreter (appendix B of DESIGN.md, ~150 lines), the field-by-field state conversion. 'Touched but equal' handlers are not generated.",
         "property-based testing (proptest): differential testing against a reference interpreter", "DESIGN.md section 5 / C06"),
 "C07": ("exploration",
         "An independent network model (FIFO per flow / multiset / live set) is advanced along every explored path of generated sender-heavy systems and compared with the real network after each step; len/iter_all/iter_deliverable must agree with the contents on every visited and on constructor-built networks.",
         "Trusted: RefNet (60 lines). Network contents are read through the public enum variants.",
         "property-based testing (proptest): model-based testing against a reference network", "DESIGN.md section 5 / C07"),
 "C09": ("fault_enumeration",
         "For generated small systems the bounded state space is enumerated exhaustively, so every allowed crash point of every execution within the bound is taken and compared with the reference (enabling, successor, silence of crashed actors); spawn_bfs/spawn_dfs must evaluate every reachable crash combination and report the structural state count.",
         "Bound: <= 3 actors, network <= 3 messages, capped history; systems exceeding the state cap are labelled and not counted as exhaustive. Trusted: reference interpreter.",
         "property-based generation of systems + exhaustive crash-point enumeration against a reference interpreter", "DESIGN.md section 5 / C09"),
 "C11": ("exploration",
         "Generated models with eventually-properties: soundness on arbitrary shapes under all strategies (reported => a maximal avoiding path exists), exactness on generated forests under the exhaustive strategies.",
         "Trusted: the 'maximal path avoiding the condition' oracle (dead end or cycle in the avoiding subgraph) and the forest test.",
         "property-based testing (proptest) with a reference-model oracle", "DESIGN.md section 5 / C11"),
 "C12": ("exploration",
         "Generated configurations of finish_when / target_state_count / target_max_depth / seed / timeout against literal readings of the controls; early stops must be explained by a configured reason; timing checks in child processes in the noise-proof direction only.",
         "Trusted: reachability oracle; OS scheduling within the margins stated in DESIGN.md 2.5.",
         "property-based testing (proptest): metamorphic/differential relations on run controls", "DESIGN.md section 5 / C12"),
 "C13": ("exploration",
         "Generated models checked by single-threaded BFS with a recording visitor; evaluation order and the length of every reported always/sometimes path compared with independently computed BFS distances.",
         "Trusted: BFS distance oracle, graph interpreter.",
         "property-based testing (proptest) with a reference-model oracle", "DESIGN.md section 5 / C13"),
}

def main():
    checks = []
    for pid in ALL:
        if pid not in CHECKS:
            continue
        cat, text, note, tech, ref = CHECKS[pid]
        checks.append({
            "property_id": pid,
            "quick_cmd": "./check.sh %s quick" % pid,
            "thorough_cmd": "./check.sh %s thorough" % pid,
            "evidence_file": "/verif/evidence/%s.json" % pid,
            "replay_cmd_template": "./check.sh %s replay {path}" % pid,
            "engine": "srv",
            "level_claimed": {"category": cat, "text": text, "design_ref": ref},
            "level_note": note,
            "technique": tech,
        })
    try:
        hooks = subprocess.check_output(["git", "-C", "/repo", "log", "--format=%H %s"], text=True).splitlines()
        hook_commits = [l.split()[0] for l in hooks if l.split(" ", 1)[1].startswith("verif-hook:")]
    except Exception:
        hook_commits = []
    m = {
        "version": 1,
        "setup_cmd": "./setup.sh",
        "hooks": {
            "guard": "--cfg getong_stateright_verif",
            "enable": "RUSTFLAGS=\"--cfg getong_stateright_verif\" (set by check.sh for the harness build; /repo is a path dependency, so the harness rebuilds from /repo's working tree)",
            "baseline_off_cmd": "./baseline_off.sh",
            "source_commits": hook_commits,
            "add_only": True,
        },
        "engines": [
            {"name": "srv", "path": "/verif/harness", "serves_properties": sorted(CHECKS.keys()),
             "kind_free_text": "Rust harness: proptest strategies -> interpreters that drive the real stateright code -> independent reference oracles; shrunk failures become JSON replay files"},
        ],
        "checks": checks,
        "notes": "See DESIGN.md. Exit codes: 0 held, 1 VIOLATION, 2 inconclusive (watchdog/build error/vacuous generator).",
        "not_applicable": [{"property_id": p, "reason": "check not built yet at this commit (see DESIGN.md section 8 build order); not a statement that the technique cannot apply"} for p in ALL if p not in CHECKS],
    }
    json.dump(m, open("/verif/MANIFEST.json", "w"), indent=1)
    print("MANIFEST.json: %d checks, %d not_applicable" % (len(checks), len(m["not_applicable"])))

main()
