#!/bin/bash
# Runs the repository's own test suite with the hook guard OFF.
cd /repo && CARGO_NET_OFFLINE=true cargo test --workspace --no-fail-fast --offline
